//! C04 — scan conversion covers exactly the pixels whose centres are inside.
//!
//! Sub-checks
//!   lattice-*   every ordered vertex triple on a small half/quarter-pixel
//!               lattice against an exact integer edge-function oracle
//!   random      generated triangles (class mixture of shapes and scales)
//!               against f64 signed edge distances with the 0.001 px band
//!   far-vertex  two vertices near the origin, the third up to 2^20 px below: the first 64 rows against a
//!               band that follows the local coordinate magnitude, not the far vertex's
//!   mesh        quads split by a diagonal and fans around a vertex: per-pixel
//!               draw count 1 inside the union, 0 outside
//! Structural invariants (y strictly increasing, no pixel twice, xs length ==
//! fragment count) are asserted on every scanline of every sub-check.

use crate::common::fl::*;
use crate::common::geo::*;
use crate::common::*;
use proptest::prelude::*;
use re::geom::vertex;
use re::math::pt3;
use re::render::raster::tri_fill;
use serde::{Deserialize, Serialize};
use serde_json::{json, Value};

pub const RULE: &str = "lattice-*: every ordered vertex triple on the stated lattice (exhaustive), exact integer oracle; \
random/mesh: proptest class-mixture generators (integer, half-integer, dyadic, near-grid and uniform coordinates; \
general/flat/vertical/sliver/sub-pixel/collinear/coincident/one-row-half shapes; scales 8..4096 px). \
Non-trivial = the triangle (mesh) covers at least one pixel centre strictly inside; distinct by the bit pattern of the ordered vertex list.";

/// One emitted scanline.
#[derive(Clone, Debug)]
pub struct Row {
    pub y: usize,
    pub x0: usize,
    pub x1: usize,
    pub frags: usize,
}

pub const RUNAWAY: usize = 1 << 18;

/// Runs tri_fill and returns the emitted scanlines (Err = it panicked).
pub fn rasterize(v: [[f32; 2]; 3]) -> Result<Vec<Row>, String> {
    catch(|| {
        let mut rows = vec![];
        let verts = v.map(|p| vertex(pt3(p[0], p[1], 1.0), ()));
        tri_fill(verts, |mut sl| {
            // a runaway rasteriser (billions of fragments or rows) must become a failure, not a hang
            let n = sl.fragments().take(RUNAWAY + 1).count();
            if n > RUNAWAY || rows.len() > RUNAWAY {
                panic!("runaway rasterisation: row y={} has more than {RUNAWAY} fragments, or more than {RUNAWAY} rows were emitted", sl.y);
            }
            rows.push(Row { y: sl.y, x0: sl.xs.start, x1: sl.xs.end, frags: n });
        });
        rows
    })
}

/// Structural invariants; returns covered pixels (x, y).
pub fn structure(rows: &[Row]) -> Result<Vec<(usize, usize)>, Fail> {
    let mut px = vec![];
    let mut last_y: Option<usize> = None;
    for r in rows {
        if let Some(ly) = last_y {
            if r.y <= ly {
                return Err(Fail::new("rows-not-increasing", format!("scanline y={} arrives after y={}", r.y, ly)));
            }
        }
        last_y = Some(r.y);
        let len = r.x1.saturating_sub(r.x0);
        if len != r.frags {
            return Err(Fail::new(
                "xs-len-vs-fragments",
                format!("row {}: xs={}..{} (len {}) but {} fragments", r.y, r.x0, r.x1, len, r.frags),
            ));
        }
        for x in r.x0..r.x1 {
            px.push((x, r.y));
        }
    }
    // rows strictly increasing => a pixel can only repeat within a row, which a Range cannot do
    Ok(px)
}

// ------------------------------------------------------------------ lattice

#[derive(Clone, Debug, Serialize, Deserialize)]
pub struct LatticeCase {
    /// lattice denominator: coordinates are k / q
    pub q: i64,
    /// vertex coordinates in lattice units
    pub v: [[i64; 2]; 3],
}

fn edge(a: [i64; 2], b: [i64; 2], p: [i64; 2]) -> i64 {
    (b[0] - a[0]) * (p[1] - a[1]) - (b[1] - a[1]) * (p[0] - a[0])
}

fn on_seg(a: [i64; 2], b: [i64; 2], p: [i64; 2]) -> bool {
    edge(a, b, p) == 0
        && p[0] >= a[0].min(b[0])
        && p[0] <= a[0].max(b[0])
        && p[1] >= a[1].min(b[1])
        && p[1] <= a[1].max(b[1])
}

/// +1 strictly inside, 0 on the boundary, -1 outside (exact).
fn classify_exact(v: &[[i64; 2]; 3], p: [i64; 2]) -> i32 {
    let s = edge(v[0], v[1], v[2]).signum();
    if s == 0 {
        if on_seg(v[0], v[1], p) || on_seg(v[1], v[2], p) || on_seg(v[2], v[0], p) {
            return 0;
        }
        return -1;
    }
    let e = [s * edge(v[0], v[1], p), s * edge(v[1], v[2], p), s * edge(v[2], v[0], p)];
    if e.iter().any(|&x| x < 0) {
        -1
    } else if e.iter().all(|&x| x > 0) {
        1
    } else {
        0
    }
}

pub fn check_lattice(c: &LatticeCase, grid: i64, obs: &mut Obs) -> Check {
    let q = c.q;
    let vf = c.v.map(|p| [p[0] as f32 / q as f32, p[1] as f32 / q as f32]);
    let rows = match rasterize(vf) {
        Ok(r) => r,
        Err(p) => fail!("tri_fill-panic", "tri_fill panicked: {p}"),
    };
    let px = structure(&rows)?;
    let g = (grid + 2) as usize;
    let mut cover = vec![0u8; g * g];
    for &(x, y) in &px {
        if x >= g || y >= g {
            fail!("covers-outside", "pixel ({x},{y}) emitted, far outside the triangle's lattice");
        }
        cover[y * g + x] += 1;
    }
    // lattice units: pixel (i, j) has its centre at (q*i + q/2, q*j + q/2) — q is even
    let mut inside = 0u64;
    let mut boundary = 0u64;
    for j in 0..g {
        for i in 0..g {
            let p = [q * i as i64 + q / 2, q * j as i64 + q / 2];
            let cls = classify_exact(&c.v, p);
            let n = cover[j * g + i];
            match cls {
                1 => {
                    inside += 1;
                    ensure!(n == 1, "inside-not-covered", "pixel ({i},{j}) centre strictly inside but drawn {n} times");
                }
                -1 => {
                    ensure!(n == 0, "covers-outside", "pixel ({i},{j}) centre strictly outside but drawn {n} times");
                }
                _ => {
                    boundary += 1;
                    ensure!(n <= 1, "pixel-twice", "pixel ({i},{j}) drawn {n} times");
                }
            }
        }
    }
    if inside > 0 {
        obs.nontrivial_enumerated(1);
        obs.class("covers>=1");
    } else {
        obs.class("covers-0");
    }
    if boundary > 0 {
        obs.class("has-centre-exactly-on-edge");
    }
    let area = edge(c.v[0], c.v[1], c.v[2]);
    if area == 0 {
        obs.class("degenerate");
    } else {
        let mut ys = [c.v[0][1], c.v[1][1], c.v[2][1]];
        ys.sort();
        if ys[0] == ys[1] {
            obs.class("flat-top");
        } else if ys[1] == ys[2] {
            obs.class("flat-bottom");
        } else {
            obs.class("general");
        }
        if ys[2] - ys[1] == q || ys[1] - ys[0] == q {
            obs.class("half-exactly-one-row");
        }
    }
    Ok(())
}

fn lattice_sub(cx: &mut Ctx, name: &str, q: i64, extent: i64) {
    let n = (extent * q + 1) as u64; // values per axis
    let pts = n * n;
    let total = pts * pts * pts;
    cx.enum_check(name, total, true, move |idx, obs| {
        let (a, r) = (idx / (pts * pts), idx % (pts * pts));
        let (b, c) = (r / pts, r % pts);
        let dec = |k: u64| [(k % n) as i64, (k / n) as i64];
        let case = LatticeCase { q, v: [dec(a), dec(b), dec(c)] };
        if obs.wants_sample() && idx % 7919 == 1234 {
            let cc = case.clone();
            obs.sample(|| json!(cc));
        }
        match check_lattice(&case, extent, obs) {
            Ok(()) => Ok(()),
            Err(f) => Err((case, f)),
        }
    });
}

// ------------------------------------------------------------------ random

#[derive(Clone, Debug, Serialize, Deserialize)]
pub struct TriCase {
    pub shape: String,
    pub v: [[X; 2]; 3],
}

impl TriCase {
    pub fn pts(&self) -> [[f32; 2]; 3] {
        self.v.map(|p| [p[0].0, p[1].0])
    }
    pub fn pts64(&self) -> [P2; 3] {
        self.v.map(|p| [p[0].0 as f64, p[1].0 as f64])
    }
}

fn perm(v: [[f32; 2]; 3], k: u8) -> [[f32; 2]; 3] {
    const P: [[usize; 3]; 6] = [[0, 1, 2], [0, 2, 1], [1, 0, 2], [1, 2, 0], [2, 0, 1], [2, 1, 0]];
    let p = P[(k % 6) as usize];
    [v[p[0]], v[p[1]], v[p[2]]]
}

fn pt(s: f32) -> impl Strategy<Value = [f32; 2]> {
    (screen_coord(s), screen_coord(s)).prop_map(|(x, y)| [x, y])
}

/// Triangles with all coordinates in [0, s] (local extent), by shape class.
pub fn tri_local(s: f32) -> BoxedStrategy<(String, [[f32; 2]; 3])> {
    let general = (pt(s), pt(s), pt(s)).prop_map(|(a, b, c)| ("general".to_string(), [a, b, c]));
    let flat = (pt(s), screen_coord(s), pt(s)).prop_map(|(a, bx, c)| ("flat".to_string(), [a, [bx, a[1]], c]));
    let vertical = (pt(s), screen_coord(s), pt(s)).prop_map(|(a, by, c)| ("vertical-edge".to_string(), [a, [a[0], by], c]));
    let sliver = (pt(s), pt(s), 0.0f32..=1.0, 1i32..=6, any::<bool>()).prop_map(move |(a, b, t, k, up)| {
        let off = 10f32.powi(-k) * if up { 1.0 } else { -1.0 };
        let mx = a[0] + (b[0] - a[0]) * t;
        let my = a[1] + (b[1] - a[1]) * t;
        // offset roughly perpendicular to the dominant direction
        let c = if (b[0] - a[0]).abs() > (b[1] - a[1]).abs() { [mx, (my + off).clamp(0.0, s)] } else { [(mx + off).clamp(0.0, s), my] };
        ("sliver".to_string(), [a, b, c])
    });
    let subpixel = (pt(s), -1.0f32..=1.0, -1.0f32..=1.0, -1.0f32..=1.0, -1.0f32..=1.0).prop_map(move |(a, d0, d1, d2, d3)| {
        ("sub-pixel".to_string(), [a, [(a[0] + d0).clamp(0.0, s), (a[1] + d1).clamp(0.0, s)], [(a[0] + d2).clamp(0.0, s), (a[1] + d3).clamp(0.0, s)]])
    });
    let si = s as i32;
    let collinear = (0..=si / 2, 0..=si / 2, 0..=si / 4, 0..=si / 4).prop_map(|(x, y, dx, dy)| {
        let (x, y, dx, dy) = (x as f32, y as f32, dx as f32, dy as f32);
        ("collinear".to_string(), [[x, y], [x + dx, y + dy], [x + 2.0 * dx, y + 2.0 * dy]])
    });
    let coincident = (pt(s), pt(s), 0u8..3).prop_map(|(a, b, k)| {
        ("coincident".to_string(), match k {
            0 => [a, a, b],
            1 => [a, b, b],
            _ => [a, a, a],
        })
    });
    // a half that is exactly one row high: mid.y = top.y + 1 or bot.y - 1
    let onerow = (pt(s), pt(s), screen_coord(s), any::<bool>()).prop_map(move |(a, b, cx, lower)| {
        let (top, bot) = if a[1] <= b[1] { (a, b) } else { (b, a) };
        let my = if lower { bot[1] - 1.0 } else { top[1] + 1.0 };
        ("one-row-half".to_string(), [top, [cx, my.clamp(0.0, s)], bot])
    });
    // two vertices a few ulps below (or above) the same row of pixel centres: a half of (almost) zero height
    // with an enormous edge slope, where any rounding slip in the row range shows as far-away pixels (F18)
    let ulpflat = (0..si.max(1), -4i32..=4, -4i32..=4, screen_coord(s), screen_coord(s), pt(s)).prop_map(|(k, i, j, x0, x1, c)| {
        let yc = k as f32 + 0.5;
        ("ulp-flat".to_string(), [[x0, nudge(yc, i)], [x1, nudge(yc, j)], c])
    });
    prop_oneof![
        8 => general,
        2 => ulpflat,
        2 => flat,
        1 => vertical,
        3 => sliver,
        2 => subpixel,
        1 => collinear,
        1 => coincident,
        3 => onerow,
    ]
    .boxed()
}

/// Scale classes: (max coordinate S, local extent E). The triangle lives in a
/// window of size E placed anywhere in [0, S].
pub fn tri_case() -> BoxedStrategy<TriCase> {
    let scales = prop_oneof![
        4 => Just((8.0f32, 8.0f32)),
        4 => Just((32.0, 32.0)),
        3 => Just((128.0, 128.0)),
        2 => Just((128.0, 16.0)),
        1 => Just((512.0, 64.0)),
        1 => Just((512.0, 512.0)),
        1 => Just((4096.0, 64.0)),
    ];
    (scales, any::<u8>(), any::<bool>())
        .prop_flat_map(|((s, e), k, int_off)| {
            let off = if s > e {
                if int_off {
                    (0..=(s - e) as i32, 0..=(s - e) as i32).prop_map(|(x, y)| [x as f32, y as f32]).boxed()
                } else {
                    (0.0..=(s - e), 0.0..=(s - e)).prop_map(|(x, y)| [x, y]).boxed()
                }
            } else {
                Just([0.0f32, 0.0]).boxed()
            };
            (tri_local(e), off, Just(k))
        })
        .prop_map(|((shape, v), off, k)| {
            // (adding a zero offset would turn -0.0 into +0.0)
            let v = v.map(|p| [if off[0] == 0.0 { p[0] } else { p[0] + off[0] }, if off[1] == 0.0 { p[1] } else { p[1] + off[1] }]);
            let v = perm(v, k);
            TriCase { shape, v: v.map(|p| [X(p[0]), X(p[1])]) }
        })
        .boxed()
}

/// Tall, narrow triangles: a few pixels wide, tens of thousands of rows high (a scanline count no buffer has, but
/// tri_fill does not know about buffers).
pub fn tall_case() -> BoxedStrategy<TriCase> {
    let h = prop_oneof![2 => 2000.0f32..20000.0, 3 => 16000.0f32..40000.0, 1 => Just(16384.0f32), 1 => Just(32768.0f32)];
    (h, screen_coord(16.0), screen_coord(16.0), screen_coord(16.0), 0.0f32..1.0, 0.0f32..64.0, any::<u8>(), 0u8..3)
        .prop_map(|(h, x0, x1, x2, t, y0, k, shape)| {
            let v = match shape {
                0 => [[x0, y0], [x1, y0], [x2, y0 + h]],          // flat top
                1 => [[x0, y0], [x1, y0 + h], [x2, y0 + h]],      // flat bottom
                _ => [[x0, y0], [x1, y0 + h * t], [x2, y0 + h]],  // both halves tall (or one short)
            };
            let v = perm(v, k);
            TriCase { shape: "tall".into(), v: v.map(|p| [X(p[0]), X(p[1])]) }
        })
        .boxed()
}

/// Wide, flat triangles: at most 16 rows high, thousands of pixels wide (edge slopes of thousands of pixels per row).
pub fn wide_case() -> BoxedStrategy<TriCase> {
    let w = prop_oneof![2 => 2000.0f32..20000.0, 3 => 16000.0f32..40000.0, 1 => Just(16384.0f32), 1 => Just(32768.0f32)];
    (w, screen_coord(16.0), screen_coord(16.0), screen_coord(16.0), 0.0f32..1.0, 0.0f32..64.0, any::<u8>(), 0u8..3)
        .prop_map(|(w, y0, y1, y2, t, x0, k, shape)| {
            let v = match shape {
                0 => [[x0, y0], [x0, y1], [x0 + w, y2]],          // vertical left edge
                1 => [[x0, y0], [x0 + w, y1], [x0 + w, y2]],      // vertical right edge
                _ => [[x0, y0], [x0 + w * t, y1], [x0 + w, y2]],  // general
            };
            let v = perm(v, k);
            TriCase { shape: "wide".into(), v: v.map(|p| [X(p[0]), X(p[1])]) }
        })
        .boxed()
}

/// Tolerance band (px) as a function of the largest coordinate magnitude (DESIGN D-a).
pub fn band_for(maxc: f64) -> f64 {
    if maxc <= 128.0 {
        0.001
    } else {
        6.7e-8 * maxc * maxc
    }
}

/// The same band for a concrete triangle: the edge positions are stepped once per row, each step rounding to
/// ulp(x)/2, so the error is also bounded by rows x ulp(largest |x|) (twice the worst case). For square-ish
/// triangles this equals band_for(); for tall thin ones (20000 rows, 16 px wide) it is far tighter.
pub fn band_tri(t: &[P2; 3]) -> f64 {
    let maxc = t.iter().flatten().fold(0.0f64, |a, &b| a.max(b.abs()));
    if maxc <= 128.0 {
        return 0.001;
    }
    let xmax = t.iter().map(|p| p[0].abs()).fold(0.0f64, f64::max).max(1.0);
    let rows = t.iter().map(|p| p[1]).fold(f64::MIN, f64::max) - t.iter().map(|p| p[1]).fold(f64::MAX, f64::min);
    let ulp = 2f64.powi(xmax.log2().floor() as i32 - 23);
    band_for(maxc).min(((rows + 2.0) * ulp).max(0.001))
}

pub fn shape_class(s: &str) -> &'static str {
    match s {
        "general" => "shape:general",
        "flat" => "shape:flat",
        "vertical-edge" => "shape:vertical-edge",
        "sliver" => "shape:sliver",
        "sub-pixel" => "shape:sub-pixel",
        "collinear" => "shape:collinear",
        "coincident" => "shape:coincident",
        "one-row-half" => "shape:one-row-half",
        "ulp-flat" => "shape:ulp-flat",
        "tall" => "shape:tall(>2000 rows)",
        "wide" => "shape:wide(>2000 px, <=16 rows)",
        _ => "shape:other",
    }
}

pub fn check_random(c: &TriCase, obs: &mut Obs) -> Check {
    let v = c.pts();
    let t = c.pts64();
    for p in &v {
        ensure!(p[0].is_finite() && p[1].is_finite() && p[0] > -0.5 && p[1] > -0.5, "bad-case", "generator produced an out-of-domain vertex {p:?}");
    }
    let rows = match rasterize(v) {
        Ok(r) => r,
        Err(p) => fail!("tri_fill-panic", "tri_fill panicked on finite input: {p}"),
    };
    let px = structure(&rows)?;
    let maxc = t.iter().flatten().fold(0.0f64, |a, &b| a.max(b));
    let band = band_tri(&t);
    let minx = t.iter().map(|p| p[0]).fold(f64::INFINITY, f64::min).floor() as i64 - 1;
    let maxx = t.iter().map(|p| p[0]).fold(0.0, f64::max).ceil() as i64 + 1;
    let miny = t.iter().map(|p| p[1]).fold(f64::INFINITY, f64::min).floor() as i64 - 1;
    let maxy = t.iter().map(|p| p[1]).fold(0.0, f64::max).ceil() as i64 + 1;
    let w = (maxx - minx + 1) as usize;
    let h = (maxy - miny + 1) as usize;
    let mut cover = vec![0u8; w * h];
    for &(x, y) in &px {
        let (xi, yi) = (x as i64 - minx, y as i64 - miny);
        if xi < 0 || yi < 0 || xi >= w as i64 || yi >= h as i64 {
            // off the padded bounding box: only legitimate for x<0/y<0 clamping, which cannot happen here
            fail!("covers-outside", "pixel ({x},{y}) is outside the triangle's bounding box padded by one pixel");
        }
        let cell = &mut cover[yi as usize * w + xi as usize];
        *cell = cell.saturating_add(1);
    }
    let area2 = orient2(t[0], t[1], t[2]).abs();
    let degenerate = area2 < 1e-9 * (1.0 + maxc);
    let mut n_inside = 0u64;
    let mut n_amb = 0u64;
    for j in 0..h {
        for i in 0..w {
            let p = [(minx + i as i64) as f64 + 0.5, (miny + j as i64) as f64 + 0.5];
            let n = cover[j * w + i];
            let m = if degenerate { -tri_edge_dist(t, p) } else { tri_inside_margin(t, p) };
            if m > band {
                n_inside += 1;
                if n != 1 {
                    fail!("inside-not-covered", "pixel centre {p:?} is {m:.6} px inside (band {band:.4}) but drawn {n} times");
                }
            } else if m < -band {
                if n != 0 {
                    fail!("covers-outside", "pixel centre {p:?} is {:.6} px outside (band {band:.4}) but drawn {n} times", -m);
                }
            } else {
                n_amb += 1;
                ensure!(n <= 1, "pixel-twice", "pixel centre {p:?} drawn {n} times");
                // record how far misclassified centres are from the edge, as a calibration aid
                let truly_in = m > 0.0;
                if (truly_in && n == 0) || (!truly_in && n == 1) {
                    obs.max(if maxc <= 128.0 { "misclassified-centre-distance/band (S<=128)" } else { "misclassified-centre-distance/band (S>128)" }, m.abs() / band);
                }
            }
        }
    }
    obs.class(shape_class(&c.shape));
    obs.class(if maxc <= 128.0 { "band:strict-0.001" } else { "band:scaled" });
    if n_amb > 0 {
        obs.class("has-centre-in-band");
    }
    if v.iter().flatten().any(|c| c.is_sign_negative()) {
        obs.class(if v.iter().flatten().any(|c| *c < 0.0) { "has-coordinate-in(-0.5,0)" } else { "has-negative-zero-coordinate" });
    }
    if n_inside > 0 {
        obs.nontrivial(hash_of(&c.v));
        obs.class("covers>=1");
    }
    if obs.wants_sample() && n_inside > 0 {
        let cc = c.clone();
        obs.sample(|| json!({"case": cc, "pixels_inside": n_inside, "band": band}));
    }
    Ok(())
}

// ------------------------------------------------------------------ far vertex, near window

pub const WIN: usize = 64;

/// Two vertices within 60 px of the origin and a third one up to 2^20 px away, far below: hundreds of thousands of
/// scanlines, of which only the first WIN are examined -- there every quantity the rasteriser steps is small, so the
/// rounding error is local (a few ulps of the coordinates *in those rows*) and the band need not grow with the far
/// vertex's magnitude as D-a's global bound does. Computing anything near the origin from the far end (an edge start
/// from its far endpoint, the long-edge split point interpolated from the bottom) costs ulp(1e6) = 0.06 px there.
pub fn far_case() -> BoxedStrategy<TriCase> {
    let yfar = prop_oneof![
        3 => (11.0f32..20.0).prop_map(|e| e.exp2()),
        1 => (11i32..=20).prop_map(|e| (e as f32).exp2()),
        1 => (11i32..=19).prop_map(|e| (e as f32).exp2() + 0.5),
    ];
    let ratio = prop_oneof![3 => 0.0f32..=1.5, 1 => 0.0f32..=4.0, 1 => Just(0.0f32), 1 => Just(1.0f32)];
    (pt(60.0), pt(60.0), yfar, ratio, any::<bool>(), any::<u8>())
        .prop_map(|(a, b, yf, r, int_x, k)| {
            let xf = (yf * r).min(1048576.0);
            let xf = if int_x { xf.round() } else { xf };
            let v = perm([a, b, [xf, yf]], k);
            TriCase { shape: "far".into(), v: v.map(|p| [X(p[0]), X(p[1])]) }
        })
        .boxed()
}

pub fn check_far(c: &TriCase, obs: &mut Obs) -> Check {
    let v = c.pts();
    let t = c.pts64();
    for p in &v {
        ensure!(p[0].is_finite() && p[1].is_finite() && p[0] > -0.5 && p[1] > -0.5, "bad-case", "generator produced an out-of-domain vertex {p:?}");
    }
    // scanlines of the window in full; of the rest only the order and the row count
    let res = catch(|| {
        let mut rows = vec![];
        let mut total = 0usize;
        let mut last: Option<usize> = None;
        let mut order_bad: Option<(usize, usize)> = None;
        let verts = v.map(|p| vertex(pt3(p[0], p[1], 1.0), ()));
        tri_fill(verts, |mut sl| {
            total += 1;
            if total > (1 << 21) + 8 {
                panic!("runaway rasterisation: more than 2^21 rows");
            }
            if let Some(l) = last {
                if sl.y <= l && order_bad.is_none() {
                    order_bad = Some((l, sl.y));
                }
            }
            last = Some(sl.y);
            if sl.y < WIN {
                let n = sl.fragments().take(RUNAWAY + 1).count();
                if n > RUNAWAY {
                    panic!("runaway rasterisation: row y={} has more than {RUNAWAY} fragments", sl.y);
                }
                rows.push(Row { y: sl.y, x0: sl.xs.start, x1: sl.xs.end, frags: n });
            }
        });
        (rows, total, order_bad)
    });
    let (rows, total, order_bad) = match res {
        Ok(r) => r,
        Err(p) => fail!("tri_fill-panic", "tri_fill panicked on finite input: {p}"),
    };
    if let Some((a, b)) = order_bad {
        fail!("rows-not-increasing", "scanline y={b} arrives after y={a}");
    }
    let px = structure(&rows)?;
    // local magnitude: the largest |x| any edge reaches within rows 0..WIN
    let wy = WIN as f64;
    let mut xw = 1.0f64;
    for i in 0..3 {
        let (a, b) = (t[i], t[(i + 1) % 3]);
        for y in [0.0, wy] {
            let yc = y.clamp(a[1].min(b[1]), a[1].max(b[1]));
            let x = if a[1] == b[1] { a[0].abs().max(b[0].abs()) } else { (a[0] + (b[0] - a[0]) * (yc - a[1]) / (b[1] - a[1])).abs() };
            xw = xw.max(x);
        }
        for q in [a, b] {
            if q[1] <= wy {
                xw = xw.max(q[0].abs());
            }
        }
    }
    let ulp = 2f64.powi(xw.log2().floor() as i32 - 23);
    let band = ((wy + 2.0) * ulp).max(0.001);
    let w = (xw.ceil() as usize + 3).min(1 << 14);
    let mut cover = vec![0u8; w * WIN];
    for &(x, y) in &px {
        if x >= w {
            fail!("covers-outside", "pixel ({x},{y}) lies to the right of everything the triangle reaches in rows 0..{WIN} (x <= {xw:.1})");
        }
        let cell = &mut cover[y * w + x];
        *cell = cell.saturating_add(1);
    }
    let mut n_inside = 0u64;
    for j in 0..WIN {
        for i in 0..w {
            let p = [i as f64 + 0.5, j as f64 + 0.5];
            let n = cover[j * w + i];
            let m = tri_inside_margin(t, p);
            if m > band {
                n_inside += 1;
                if n != 1 {
                    fail!("inside-not-covered", "pixel centre {p:?} is {m:.6} px inside (local band {band:.4}) but drawn {n} times");
                }
            } else if m < -band {
                if n != 0 {
                    fail!("covers-outside", "pixel centre {p:?} is {:.6} px outside (local band {band:.4}) but drawn {n} times", -m);
                }
            } else {
                ensure!(n <= 1, "pixel-twice", "pixel centre {p:?} drawn {n} times");
                let truly_in = m > 0.0;
                if (truly_in && n == 0) || (!truly_in && n == 1) {
                    obs.max("misclassified-centre-distance/local-band (far vertex)", m.abs() / band);
                }
            }
        }
    }
    obs.class("shape:far-vertex(near window)");
    obs.class(if total > 100_000 { "rows>1e5" } else if total > 10_000 { "rows>1e4" } else { "rows<=1e4" });
    obs.class(if band > 0.001 { "local-band>0.001" } else { "local-band=0.001" });
    if n_inside > 0 {
        obs.nontrivial(hash_of(&c.v));
        obs.class("covers>=1");
    }
    if obs.wants_sample() && n_inside > 0 {
        let cc = c.clone();
        obs.sample(|| json!({"case": cc, "pixels_inside_window": n_inside, "rows_total": total, "local_band": band}));
    }
    Ok(())
}

// ------------------------------------------------------------------ meshes

#[derive(Clone, Debug, Serialize, Deserialize)]
pub struct MeshCase {
    pub kind: String,
    pub verts: Vec<[X; 2]>,
    pub tris: Vec<[usize; 3]>,
}

fn mesh_case() -> BoxedStrategy<MeshCase> {
    let s = prop_oneof![Just(8.0f32), Just(32.0), Just(128.0)];
    let quad = (s.clone(), any::<bool>(), any::<[u8; 2]>()).prop_flat_map(|(s, diag, ks)| {
        (pt(s), pt(s), pt(s), pt(s)).prop_map(move |(a, b, c, d)| {
            let verts = vec![a, b, c, d].into_iter().map(|p| [X(p[0]), X(p[1])]).collect();
            let tris = if diag { vec![[0, 1, 2], [0, 2, 3]] } else { vec![[0, 1, 3], [1, 2, 3]] };
            let tris = tris.iter().zip(ks).map(|(t, k)| rot(*t, k)).collect();
            MeshCase { kind: "quad".into(), verts, tris }
        })
    });
    let fan = (s, 3usize..=8, any::<[u8; 8]>()).prop_flat_map(|(s, k, ks)| {
        (pt(s), proptest::collection::vec((0.0f32..1.0, 0.05f32..1.0), k)).prop_map(move |(c, ring)| {
            // ring vertices at increasing angles around c, radius up to s/2, clamped to the non-negative quadrant
            let mut angs: Vec<f32> = ring.iter().map(|r| r.0).collect();
            angs.sort_by(|a, b| a.partial_cmp(b).unwrap());
            let mut verts = vec![[X(c[0]), X(c[1])]];
            for (a, r) in angs.iter().zip(ring.iter()) {
                let th = a * std::f32::consts::TAU;
                let x = (c[0] + th.cos() * r.1 * s * 0.5).max(0.0);
                let y = (c[1] + th.sin() * r.1 * s * 0.5).max(0.0);
                // snap some to the half-pixel grid so shared vertices sit on centres
                let (x, y) = if r.1 < 0.4 { ((x * 2.0).round() / 2.0, (y * 2.0).round() / 2.0) } else { (x, y) };
                verts.push([X(x), X(y)]);
            }
            let n = angs.len();
            let tris = (0..n).map(|i| rot([0, 1 + i, 1 + (i + 1) % n], ks[i % 8])).collect();
            MeshCase { kind: "fan".into(), verts, tris }
        })
    });
    prop_oneof![quad.boxed(), fan.boxed()].boxed()
}

fn rot(t: [usize; 3], k: u8) -> [usize; 3] {
    const P: [[usize; 3]; 6] = [[0, 1, 2], [0, 2, 1], [1, 0, 2], [1, 2, 0], [2, 0, 1], [2, 1, 0]];
    let p = P[(k % 6) as usize];
    [t[p[0]], t[p[1]], t[p[2]]]
}

pub fn check_mesh(c: &MeshCase, obs: &mut Obs) -> Check {
    let vs: Vec<[f32; 2]> = c.verts.iter().map(|p| [p[0].0, p[1].0]).collect();
    let v64: Vec<P2> = vs.iter().map(|p| [p[0] as f64, p[1] as f64]).collect();
    let maxc = v64.iter().flatten().fold(0.0f64, |a, &b| a.max(b));
    let band = band_for(maxc);
    let w = maxc.ceil() as usize + 3;
    let mut count = vec![0u8; w * w];
    for t in &c.tris {
        let rows = match rasterize([vs[t[0]], vs[t[1]], vs[t[2]]]) {
            Ok(r) => r,
            Err(p) => fail!("tri_fill-panic", "tri_fill panicked: {p}"),
        };
        for (x, y) in structure(&rows)? {
            ensure!(x < w && y < w, "covers-outside", "pixel ({x},{y}) outside the mesh's bounding box");
            count[y * w + x] = count[y * w + x].saturating_add(1);
        }
    }
    let tris64: Vec<[P2; 3]> = c.tris.iter().map(|t| [v64[t[0]], v64[t[1]], v64[t[2]]]).collect();
    // The union/overlap oracle needs the triangles themselves not to overlap:
    // for a fan that holds when the ring is star-shaped around the centre (angles
    // increase and total turn < 360 per wedge); for a quad split by a diagonal it
    // holds when the quad is convex or the diagonal is interior. We do not assume
    // it: a pixel is asserted only when the number of triangles it is
    // unambiguously inside (k_in) and the number it is possibly inside (k_maybe)
    // agree, and then the draw count must equal that number.
    let mut asserted_in = 0u64;
    for j in 0..w {
        for i in 0..w {
            let p = [i as f64 + 0.5, j as f64 + 0.5];
            let mut k_in = 0u8;
            let mut k_maybe = 0u8;
            for t in &tris64 {
                let a2 = orient2(t[0], t[1], t[2]).abs();
                let m = if a2 < 1e-9 * (1.0 + maxc) { -tri_edge_dist(*t, p) } else { tri_inside_margin(*t, p) };
                if m > band {
                    k_in += 1;
                    k_maybe += 1;
                } else if m >= -band {
                    k_maybe += 1;
                }
            }
            let n = count[j * w + i];
            if k_in == k_maybe {
                if k_in >= 1 {
                    asserted_in += 1;
                }
                ensure!(
                    n == k_in,
                    if n < k_in { "mesh-gap" } else { "mesh-overdraw" },
                    "pixel centre {p:?} lies unambiguously inside {k_in} triangle(s) of the mesh but was drawn {n} times"
                );
            } else {
                ensure!(n >= k_in && n <= k_maybe, "mesh-count", "pixel centre {p:?}: drawn {n} times, expected between {k_in} and {k_maybe}");
            }
        }
    }
    obs.class(if c.kind == "quad" { "mesh:quad" } else { "mesh:fan" });
    if asserted_in > 0 {
        obs.nontrivial(hash_of(&(&c.verts, &c.tris)));
    }
    if obs.wants_sample() && asserted_in > 0 {
        let cc = c.clone();
        obs.sample(|| json!(cc));
    }
    Ok(())
}

// ------------------------------------------------------------------ entry points

pub fn run(cx: &mut Ctx) {
    cx.assume("coordinates handed to tri_fill are finite and > -0.5, i.e. non-negative up to the rounding of the viewport transform, -0.0 included (every caller in the crate clips to the viewport first; DESIGN D-b)");
    cx.assume("the 0.001 px band is asserted at full strength for coordinates <= 128 px and widened to 6.7e-8*S^2 px beyond (f32 incremental edge stepping; DESIGN D-a)");
    cx.assume("a centre counts as 'within the band of an edge' when its signed distance to that edge's line is within the band (so the mitre beyond a very sharp tip is ambiguous)");
    lattice_sub(cx, "lattice-half-0..4", 2, 4);
    if cx.tier == Tier::Thorough {
        lattice_sub(cx, "lattice-half-0..6", 2, 6);
        lattice_sub(cx, "lattice-quarter-0..3", 4, 3);
    }
    let n = cx.n(400_000, 12_000_000);
    cx.prop_check("random", n, tri_case, |c, obs| check_random(c, obs));
    let n = cx.n(60_000, 2_000_000);
    cx.prop_check("mesh", n, mesh_case, |c, obs| check_mesh(c, obs));
    let n = cx.n(400, 10_000);
    cx.prop_check("tall", n, tall_case, |c, obs| check_random(c, obs));
    let n = cx.n(400, 10_000);
    cx.prop_check("wide", n, wide_case, |c, obs| check_random(c, obs));
    let n = cx.n(1_500, 40_000);
    cx.prop_check("far-vertex", n, far_case, |c, obs| check_far(c, obs));
}

pub fn replay(sub: &str, case: &Value) -> Check {
    let mut obs = Obs::new();
    obs.freeze();
    if sub.starts_with("lattice") {
        let c: LatticeCase = serde_json::from_value(case.clone()).map_err(|e| Fail::new("bad-replay", e.to_string()))?;
        let ext = c.v.iter().flatten().max().copied().unwrap_or(0) / c.q + 1;
        check_lattice(&c, ext, &mut obs)
    } else if sub == "random" || sub == "tall" || sub == "wide" {
        let c: TriCase = serde_json::from_value(case.clone()).map_err(|e| Fail::new("bad-replay", e.to_string()))?;
        check_random(&c, &mut obs)
    } else if sub == "far-vertex" {
        let c: TriCase = serde_json::from_value(case.clone()).map_err(|e| Fail::new("bad-replay", e.to_string()))?;
        check_far(&c, &mut obs)
    } else if sub == "mesh" {
        let c: MeshCase = serde_json::from_value(case.clone()).map_err(|e| Fail::new("bad-replay", e.to_string()))?;
        check_mesh(&c, &mut obs)
    } else {
        Err(Fail::new("bad-replay", format!("unknown subcheck {sub}")))
    }
}
