//! C09 — transform algebra: compose, apply, invert, determinant.
//!
//! Sub-checks (all proptest, every oracle is f64 arithmetic done in this file)
//!   constructors   one factor: translate / scale / rotate_x,y,z / shear / from_basis / signed axis
//!                  permutation / orient_y / orient_z has its defining action on probe points, and the
//!                  documented matrix form M*(v,1) on vectors (linear maps: the linear part, apply(0)=0)
//!   compose-apply  products of 2..5 factors: then() == compose() swapped bit-for-bit; both association
//!                  orders equal the f64 product; applying the composite equals applying the parts in order;
//!                  apply/apply_pt equal M*(v,1)
//!   inverse        products with cond(linear part) <= 1e3 and |det| in [1e-3,1e3]: M∘M⁻¹ and M⁻¹∘M are the
//!                  identity, M⁻¹(M v) = v and M(M⁻¹ v) = v; >= 30 % of the matrices need a row exchange
//!   determinant    det against an f64 elimination, det(a∘b) = det a * det b (affine products and general
//!                  4x4 element matrices), det(scale) = product, det(translate) = 1
//!   rotations      products of rotations: |Rv| = |v|, det = 1, transpose == inverse
//!   mat3           the 3x3 (2D) API: then/compose, both associations, parts in order, M*(v,1), 2D rotations
//!
//! Tolerances are componentwise: K * (|A||B|...)_ij, i.e. the standard first-order rounding bound of the
//! operation with the constant K stated per sub-check (measured margins are reported as `.../tolerance`).

use crate::common::fl::*;
use crate::common::*;
use proptest::prelude::*;
use re::math::mat::{Mat3x3, Mat4x4, Matrix, RealToReal};
use re::math::{degs, orient_y, orient_z, pt2, pt3, rotate_x, rotate_y, rotate_z, scale, translate, vec2, vec3};
use serde::{Deserialize, Serialize};
use serde_json::{json, Value};

pub const RULE: &str = "proptest: products of 1..5 factors drawn from {translate (0, integers, +-100), scale (+-10^U(-0.7,0.7), +-1, 2, 0.5; wide-ratio (10^e, 10^-e, 10^f) with cond up to ~800), \
rotate_x/y/z (multiples of 90 and 45 degrees, a few ulps or 1e-3 degrees next to them, uniform +-360), shear (+-1, uniform +-2, +-10^U(0.3,1.45)), from_basis of a well-conditioned random basis, \
from_basis of a signed axis permutation (exact zeros on the diagonal), orient_y / orient_z}; probes from {0, +-1, integers, uniform +-100}. \
inverse/determinant products are cut to their longest prefix with cond_2(linear part) <= 1e3 and |det| in [1e-3, 1e3] (DESIGN D-f). \
Non-trivial = (inverse) a reference f64 elimination with partial pivoting meets a zero or non-maximal pivot on the diagonal at some step, i.e. the matrix needs a row exchange; \
(other sub-checks) the product has >= 2 factors that are not the identity, or for single-factor sub-checks a non-identity factor with a non-zero probe. Distinct by case bit pattern.";

type R4 = Mat4x4<RealToReal<3>>;
type R3 = Mat3x3<RealToReal<2>>;
type M4 = [[f64; 4]; 4];
type M3 = [[f64; 3]; 3];

/// relative constant for products / applications (documented in DESIGN C09: 1e-5 * scale)
const K_ALG: f64 = 4e-6;
/// one matrix-vector product or one constructor: a handful of roundings
const K_ONE: f64 = 1e-6;
/// absolute floor (f32 underflow of tiny products such as cos(90 deg)^5)
const ABS_FLOOR: f64 = 1e-30;

// ------------------------------------------------------------------ f64 reference helpers (N = 3, 4)

fn ident<const N: usize>() -> [[f64; N]; N] {
    let mut m = [[0.0; N]; N];
    for i in 0..N {
        m[i][i] = 1.0;
    }
    m
}

fn mul<const N: usize>(a: &[[f64; N]; N], b: &[[f64; N]; N]) -> [[f64; N]; N] {
    let mut m = [[0.0; N]; N];
    for i in 0..N {
        for j in 0..N {
            let mut s = 0.0;
            for k in 0..N {
                s += a[i][k] * b[k][j];
            }
            m[i][j] = s;
        }
    }
    m
}

fn absm<const N: usize>(a: &[[f64; N]; N]) -> [[f64; N]; N] {
    a.map(|r| r.map(f64::abs))
}

fn mulv<const N: usize>(a: &[[f64; N]; N], v: &[f64; N]) -> [f64; N] {
    let mut o = [0.0; N];
    for i in 0..N {
        for k in 0..N {
            o[i] += a[i][k] * v[k];
        }
    }
    o
}

fn promote<const N: usize>(a: &[[f32; N]; N]) -> [[f64; N]; N] {
    a.map(|r| r.map(|x| x as f64))
}

fn h4(v: [f64; 3]) -> [f64; 4] {
    [v[0], v[1], v[2], 1.0]
}
fn h3(v: [f64; 2]) -> [f64; 3] {
    [v[0], v[1], 1.0]
}

fn bits_eq<const N: usize>(a: &[[f32; N]; N], b: &[[f32; N]; N]) -> bool {
    (0..N).all(|i| (0..N).all(|j| a[i][j].to_bits() == b[i][j].to_bits()))
}

/// Largest |got - want| / tol over the elements; tol_ij = k * scale_ij + ABS_FLOOR.
fn worst_m<const N: usize>(got: &[[f64; N]; N], want: &[[f64; N]; N], scale: &[[f64; N]; N], k: f64) -> (f64, usize, usize) {
    let mut w = (0.0, 0, 0);
    for i in 0..N {
        for j in 0..N {
            let tol = k * scale[i][j] + ABS_FLOOR;
            let e = (got[i][j] - want[i][j]).abs();
            let r = if e.is_finite() { e / tol } else { f64::INFINITY };
            if r > w.0 {
                w = (r, i, j);
            }
        }
    }
    w
}

/// Largest |got - want| / tol over the first `n` components.
fn worst_v<const N: usize>(got: &[f64], want: &[f64; N], scale: &[f64; N], k: f64, n: usize) -> (f64, usize) {
    let mut w = (0.0, 0);
    for i in 0..n {
        let tol = k * scale[i] + ABS_FLOOR;
        let e = (got[i] - want[i]).abs();
        let r = if e.is_finite() { e / tol } else { f64::INFINITY };
        if r > w.0 {
            w = (r, i);
        }
    }
    w
}

/// Reference elimination with partial pivoting in f64.
struct Elim {
    /// a row exchange was needed at step i (|diagonal| strictly below the column maximum)
    exch: [bool; 4],
    /// ... and the diagonal element was exactly zero
    zero_pivot: bool,
    /// ... and the diagonal was below half the column maximum (not a near tie)
    strong: bool,
    det: f64,
}

fn eliminate(m: &M4) -> Elim {
    let mut a = *m;
    let mut e = Elim { exch: [false; 4], zero_pivot: false, strong: false, det: 1.0 };
    for idx in 0..4 {
        let mut best = idx;
        for r in idx + 1..4 {
            if a[r][idx].abs() > a[best][idx].abs() {
                best = r;
            }
        }
        if best != idx {
            e.exch[idx] = true;
            if a[idx][idx] == 0.0 {
                e.zero_pivot = true;
            }
            if a[idx][idx].abs() < 0.5 * a[best][idx].abs() {
                e.strong = true;
            }
            a.swap(idx, best);
            e.det = -e.det;
        }
        let p = a[idx][idx];
        e.det *= p;
        if p == 0.0 {
            e.det = 0.0;
            return e;
        }
        for r in idx + 1..4 {
            let x = a[r][idx] / p;
            if x != 0.0 {
                for c in 0..4 {
                    a[r][c] -= x * a[idx][c];
                }
            }
        }
    }
    e
}

/// f64 Gauss-Jordan inverse on [A | I] (independent of the code under test).
fn inv_ref(m: &M4) -> Option<M4> {
    let mut a = *m;
    let mut b: M4 = ident();
    for idx in 0..4 {
        let mut best = idx;
        for r in idx + 1..4 {
            if a[r][idx].abs() > a[best][idx].abs() {
                best = r;
            }
        }
        a.swap(idx, best);
        b.swap(idx, best);
        let p = a[idx][idx];
        if p == 0.0 || !p.is_finite() {
            return None;
        }
        for c in 0..4 {
            a[idx][c] /= p;
            b[idx][c] /= p;
        }
        for r in 0..4 {
            if r != idx {
                let x = a[r][idx];
                if x != 0.0 {
                    for c in 0..4 {
                        a[r][c] -= x * a[idx][c];
                        b[r][c] -= x * b[idx][c];
                    }
                }
            }
        }
    }
    Some(b)
}

/// Sum of |products| over all 24 permutations: the magnitude against which a cofactor expansion rounds.
fn permanent_abs(m: &M4) -> f64 {
    let a = absm(m);
    let mut s = 0.0;
    for i in 0..4 {
        for j in 0..4 {
            if j == i {
                continue;
            }
            for k in 0..4 {
                if k == i || k == j {
                    continue;
                }
                let l = 6 - i - j - k;
                s += a[0][i] * a[1][j] * a[2][k] * a[3][l];
            }
        }
    }
    s
}

/// Determinant by the Leibniz formula in f64 (structural zeros stay exact).
fn det_leibniz(a: &M4) -> f64 {
    let mut s = 0.0;
    for i in 0..4 {
        for j in 0..4 {
            if j == i {
                continue;
            }
            for k in 0..4 {
                if k == i || k == j {
                    continue;
                }
                let l = 6 - i - j - k;
                let p = [i, j, k, l];
                let mut inv = 0;
                for x in 0..4 {
                    for y in x + 1..4 {
                        if p[x] > p[y] {
                            inv += 1;
                        }
                    }
                }
                let t = a[0][i] * a[1][j] * a[2][k] * a[3][l];
                s += if inv % 2 == 0 { t } else { -t };
            }
        }
    }
    s
}

/// Shape of the forward error of an inverse computed by elimination with row exchanges:
/// E_kj = max|A| * rowsum_k|A⁻¹| * colsum_j|A⁻¹|  (>= (|A⁻¹||A||A⁻¹|)_kj). The purely componentwise
/// product is not a valid bound because L and U of the row-permuted matrix fill positions where A has
/// zeros; this rank-one form keeps the row/column scaling (translation column vs linear part).
fn inverse_error_shape(a: &M4, ai: &M4) -> M4 {
    let top = a.iter().flatten().fold(0.0f64, |m, x| m.max(x.abs()));
    let mut e = [[0.0; 4]; 4];
    for k in 0..4 {
        let rs: f64 = ai[k].iter().map(|x| x.abs()).sum();
        for j in 0..4 {
            let cs: f64 = (0..4).map(|l| ai[l][j].abs()).sum();
            e[k][j] = top * rs * cs;
        }
    }
    e
}

/// 2-norm condition number of the linear (upper-left 3x3) part, by Jacobi on LᵀL.
fn cond_linear(m: &M4) -> f64 {
    let mut a = [[0.0f64; 3]; 3];
    for i in 0..3 {
        for j in 0..3 {
            for k in 0..3 {
                a[i][j] += m[k][i] * m[k][j];
            }
        }
    }
    for _ in 0..40 {
        let off = a[0][1] * a[0][1] + a[0][2] * a[0][2] + a[1][2] * a[1][2];
        let tr = a[0][0] + a[1][1] + a[2][2];
        if off <= 1e-34 * tr * tr {
            break;
        }
        for (p, q) in [(0usize, 1usize), (0, 2), (1, 2)] {
            if a[p][q] == 0.0 {
                continue;
            }
            let theta = (a[q][q] - a[p][p]) / (2.0 * a[p][q]);
            let t = theta.signum() / (theta.abs() + (theta * theta + 1.0).sqrt());
            let c = 1.0 / (t * t + 1.0).sqrt();
            let s = t * c;
            for k in 0..3 {
                let (akp, akq) = (a[k][p], a[k][q]);
                a[k][p] = c * akp - s * akq;
                a[k][q] = s * akp + c * akq;
            }
            for k in 0..3 {
                let (apk, aqk) = (a[p][k], a[q][k]);
                a[p][k] = c * apk - s * aqk;
                a[q][k] = s * apk + c * aqk;
            }
        }
    }
    let d = [a[0][0], a[1][1], a[2][2]];
    let hi = d.iter().cloned().fold(f64::MIN, f64::max);
    let lo = d.iter().cloned().fold(f64::MAX, f64::min);
    if !(lo > 0.0) || !hi.is_finite() {
        return f64::INFINITY;
    }
    (hi / lo).sqrt()
}

fn cross(a: [f64; 3], b: [f64; 3]) -> [f64; 3] {
    [a[1] * b[2] - a[2] * b[1], a[2] * b[0] - a[0] * b[2], a[0] * b[1] - a[1] * b[0]]
}
fn norm(a: [f64; 3]) -> f64 {
    (a[0] * a[0] + a[1] * a[1] + a[2] * a[2]).sqrt()
}
fn unit(a: [f64; 3]) -> [f64; 3] {
    let n = norm(a);
    [a[0] / n, a[1] / n, a[2] / n]
}

/// affine matrix with the given columns as images of the basis vectors
fn from_cols(i: [f64; 3], j: [f64; 3], k: [f64; 3]) -> M4 {
    [[i[0], j[0], k[0], 0.0], [i[1], j[1], k[1], 0.0], [i[2], j[2], k[2], 0.0], [0.0, 0.0, 0.0, 1.0]]
}

// ------------------------------------------------------------------ factors

#[derive(Clone, Debug, Serialize, Deserialize, Hash)]
pub enum Fac {
    /// translate(t)
    T([X; 3]),
    /// scale(s)
    S([X; 3]),
    /// rotate_x / rotate_y / rotate_z (axis 0/1/2) by degs(deg)
    R { axis: u8, deg: X },
    /// shear: identity plus k at row r, column c (r != c, both < 3), built with Matrix::new
    Sh { r: u8, c: u8, k: X },
    /// from_basis(i, j, k)
    B([[X; 3]; 3]),
    /// from_basis of signed coordinate axes: basis vector n is sign_n * e_{PERMS[perm][n]}
    P { perm: u8, signs: u8 },
    /// orient_y(new_y, x)
    Oy { y: [X; 3], x: [X; 3] },
    /// orient_z(new_z, x)
    Oz { z: [X; 3], x: [X; 3] },
}

const PERMS: [[usize; 3]; 6] = [[0, 1, 2], [1, 2, 0], [2, 0, 1], [0, 2, 1], [2, 1, 0], [1, 0, 2]];

fn f3(a: &[X; 3]) -> [f32; 3] {
    [a[0].0, a[1].0, a[2].0]
}
fn d3(a: &[X; 3]) -> [f64; 3] {
    [a[0].0 as f64, a[1].0 as f64, a[2].0 as f64]
}

fn perm_axes(perm: u8, signs: u8) -> [[f64; 3]; 3] {
    let p = PERMS[(perm % 6) as usize];
    let mut b = [[0.0; 3]; 3];
    for n in 0..3 {
        b[n][p[n]] = if signs >> n & 1 == 1 { -1.0 } else { 1.0 };
    }
    b
}

impl Fac {
    fn kind(&self) -> &'static str {
        match self {
            Fac::T(_) => "factor:translate",
            Fac::S(_) => "factor:scale",
            Fac::R { axis: 0, .. } => "factor:rotate_x",
            Fac::R { axis: 1, .. } => "factor:rotate_y",
            Fac::R { .. } => "factor:rotate_z",
            Fac::Sh { .. } => "factor:shear",
            Fac::B(_) => "factor:from_basis(random)",
            Fac::P { .. } => "factor:from_basis(signed axis permutation)",
            Fac::Oy { .. } => "factor:orient_y",
            Fac::Oz { .. } => "factor:orient_z",
        }
    }

    fn is_linear(&self) -> bool {
        !matches!(self, Fac::T(_))
    }

    fn well_formed(&self) -> bool {
        match self {
            Fac::R { axis, .. } => *axis < 3,
            Fac::Sh { r, c, .. } => *r < 3 && *c < 3 && r != c,
            Fac::P { perm, signs } => *perm < 6 && *signs < 8,
            Fac::Oy { y: n, x } | Fac::Oz { z: n, x } => {
                let (n, x) = (d3(n), d3(x));
                let c = norm(cross(x, n));
                norm(n) > 1e-3 && norm(x) > 1e-3 && c > 0.3 * norm(n) * norm(x)
            }
            _ => true,
        }
    }

    /// The matrix built by the code under test.
    fn real(&self) -> R4 {
        match self {
            Fac::T(t) => {
                let t = f3(t);
                translate(vec3(t[0], t[1], t[2]))
            }
            Fac::S(s) => {
                let s = f3(s);
                scale(vec3(s[0], s[1], s[2]))
            }
            Fac::R { axis, deg } => match axis {
                0 => rotate_x(degs(deg.0)),
                1 => rotate_y(degs(deg.0)),
                _ => rotate_z(degs(deg.0)),
            },
            Fac::Sh { r, c, k } => {
                let mut e = [[0.0f32; 4]; 4];
                for i in 0..4 {
                    e[i][i] = 1.0;
                }
                e[*r as usize][*c as usize] = k.0;
                Matrix::new(e)
            }
            Fac::B(b) => {
                let v = |a: &[X; 3]| vec3(a[0].0, a[1].0, a[2].0);
                R4::from_basis(v(&b[0]), v(&b[1]), v(&b[2]))
            }
            Fac::P { perm, signs } => {
                let b = perm_axes(*perm, *signs);
                let v = |a: [f64; 3]| vec3(a[0] as f32, a[1] as f32, a[2] as f32);
                R4::from_basis(v(b[0]), v(b[1]), v(b[2]))
            }
            Fac::Oy { y, x } => {
                let (y, x) = (f3(y), f3(x));
                orient_y(vec3(y[0], y[1], y[2]), vec3(x[0], x[1], x[2]))
            }
            Fac::Oz { z, x } => {
                let (z, x) = (f3(z), f3(x));
                orient_z(vec3(z[0], z[1], z[2]), vec3(x[0], x[1], x[2]))
            }
        }
    }

    /// The defining action, as an f64 affine matrix, written from the documentation and the crate's
    /// unit tests (not from the implementation): see the comments per arm.
    fn ideal(&self) -> M4 {
        match self {
            // "applying a translation by t": p -> p + t
            Fac::T(t) => {
                let t = d3(t);
                let mut m: M4 = ident();
                for i in 0..3 {
                    m[i][3] = t[i];
                }
                m
            }
            // "applying a scaling by s": p -> (s.x p.x, s.y p.y, s.z p.z)
            Fac::S(s) => {
                let s = d3(s);
                let mut m: M4 = ident();
                for i in 0..3 {
                    m[i][i] = s[i];
                }
                m
            }
            // rotation about an axis: fixes the axis; in the orthogonal plane e_from -> cos a e_from + sin a e_to,
            // e_to -> -sin a e_from + cos a e_to, where the sense (from -> to) is fixed by the crate's tests:
            // rotate_x(90) takes +z to +y, rotate_y(90) +x to +z, rotate_z(90) +y to +x
            Fac::R { axis, deg } => {
                let a = degs(deg.0).to_rads() as f64;
                let (s, c) = a.sin_cos();
                let (fixed, from, to) = match axis {
                    0 => (0, 2, 1),
                    1 => (1, 0, 2),
                    _ => (2, 1, 0),
                };
                let mut cols = [[0.0; 3]; 3];
                cols[fixed][fixed] = 1.0;
                cols[from][from] = c;
                cols[from][to] = s;
                cols[to][from] = -s;
                cols[to][to] = c;
                from_cols(cols[0], cols[1], cols[2])
            }
            // shear: p -> p + k p[c] e_r
            Fac::Sh { r, c, k } => {
                let mut m: M4 = ident();
                m[*r as usize][*c as usize] = k.0 as f64;
                m
            }
            // from_basis(i, j, k): x -> i, y -> j, z -> k (crate test `from_basis`)
            Fac::B(b) => from_cols(d3(&b[0]), d3(&b[1]), d3(&b[2])),
            Fac::P { perm, signs } => {
                let b = perm_axes(*perm, *signs);
                from_cols(b[0], b[1], b[2])
            }
            // orient_y(new_y, x): y -> new_y; z -> the unit vector orthogonal to x and new_y (x × new_y,
            // the sense fixed by test orientation_y_to_z: orient_y(Z, X) takes z to -y and x to x);
            // x -> new_y × new_z so that the result is a rotation ("orthogonal basis")
            Fac::Oy { y, x } => {
                let (ny, x) = (d3(y), d3(x));
                let nz = unit(cross(x, ny));
                let nx = cross(ny, nz);
                from_cols(nx, ny, nz)
            }
            // orient_z(new_z, x): z -> new_z; y -> unit(new_z × x) (test orientation_z_to_y: orient_z(Y, X)
            // takes y to -z and x to x); x -> new_y × new_z
            Fac::Oz { z, x } => {
                let (nz, x) = (d3(z), d3(x));
                let ny = unit(cross(nz, x));
                let nx = cross(ny, nz);
                from_cols(nx, ny, nz)
            }
        }
    }

    fn is_identity(&self) -> bool {
        self.ideal() == ident::<4>()
    }
}

// ------------------------------------------------------------------ strategies

fn tcomp() -> BoxedStrategy<f32> {
    prop_oneof![
        1 => Just(0.0f32),
        2 => (-10i32..=10).prop_map(|i| i as f32),
        3 => -100.0f32..=100.0,
        2 => -3.0f32..=3.0,
    ]
    .boxed()
}

fn scomp() -> BoxedStrategy<f32> {
    prop_oneof![
        1 => Just(1.0f32),
        1 => Just(-1.0f32),
        1 => Just(2.0f32),
        1 => Just(0.5f32),
        6 => signed(log_uniform(-0.7, 0.7)),
    ]
    .boxed()
}

fn angle_deg() -> BoxedStrategy<f32> {
    prop_oneof![
        4 => (-8i32..=8).prop_map(|k| 90.0 * k as f32),
        1 => (-8i32..=8).prop_map(|k| 45.0 * k as f32),
        1 => (-4i32..=4, -3i32..=3).prop_map(|(k, u)| nudge(90.0 * k as f32, u)),
        1 => (-4i32..=4, prop_oneof![Just(1e-3f32), Just(-1e-3f32), Just(0.1f32), Just(-0.1f32)]).prop_map(|(k, d)| 90.0 * k as f32 + d),
        // tiny rotations (1e-7 .. 1e-4 rad off a multiple of 90 degrees): off-diagonal entries of 1e-7 .. 1e-4 relative
        2 => (-2i32..=2, signed(log_uniform(-5.3, -2.3))).prop_map(|(k, d)| 90.0 * k as f32 + d),
        5 => -360.0f32..=360.0,
    ]
    .boxed()
}

fn probe_comp() -> BoxedStrategy<f32> {
    prop_oneof![
        1 => Just(0.0f32),
        1 => Just(1.0f32),
        1 => Just(-1.0f32),
        2 => (-100i32..=100).prop_map(|i| i as f32),
        4 => -100.0f32..=100.0,
        1 => -1.0f32..=1.0,
    ]
    .boxed()
}

fn probe3() -> impl Strategy<Value = [X; 3]> {
    [probe_comp(), probe_comp(), probe_comp()].prop_map(xs)
}

fn euler(a: f64, b: f64, c: f64) -> M3 {
    let (sa, ca) = a.to_radians().sin_cos();
    let (sb, cb) = b.to_radians().sin_cos();
    let (sc, cc) = c.to_radians().sin_cos();
    let rz: M3 = [[ca, -sa, 0.0], [sa, ca, 0.0], [0.0, 0.0, 1.0]];
    let ry: M3 = [[cb, 0.0, sb], [0.0, 1.0, 0.0], [-sb, 0.0, cb]];
    let rx: M3 = [[1.0, 0.0, 0.0], [0.0, cc, -sc], [0.0, sc, cc]];
    mul(&mul(&rz, &ry), &rx)
}

/// A well-conditioned basis by construction: an orthonormal frame, scaled per axis by +-10^U(-0.5,0.5),
/// plus a perturbation of at most 0.1 * (smallest scale) per component.
fn basis() -> BoxedStrategy<Fac> {
    (
        [-180.0f32..=180.0, -180.0f32..=180.0, -180.0f32..=180.0],
        [signed(log_uniform(-0.5, 0.5)), signed(log_uniform(-0.5, 0.5)), signed(log_uniform(-0.5, 0.5))],
        proptest::array::uniform9(-0.1f32..=0.1),
        any::<bool>(),
    )
        .prop_map(|(ang, sc, pert, round)| {
            let q = euler(ang[0] as f64, ang[1] as f64, ang[2] as f64);
            let smin = sc.iter().fold(f32::MAX, |a, b| a.min(b.abs())) as f64;
            let mut b = [[X(0.0); 3]; 3];
            for n in 0..3 {
                for i in 0..3 {
                    let mut v = q[i][n] * sc[n] as f64 + pert[n * 3 + i] as f64 * smin;
                    if round {
                        // quarter-grid bases: many exactly representable entries, exact zeros
                        v = (v * 4.0).round() / 4.0;
                    }
                    b[n][i] = X(v as f32);
                }
            }
            Fac::B(b)
        })
        .prop_filter("basis degenerated by rounding", |f| {
            let m = f.ideal();
            cond_linear(&m) <= 100.0
        })
        .boxed()
}

/// Inputs of orient_y / orient_z: the new axis (length `len`) and an x hint at least ~63 degrees away from it.
fn orient_inputs(unit_inputs: bool) -> impl Strategy<Value = ([X; 3], [X; 3])> {
    (
        -180.0f64..=180.0,
        -90.0f64..=90.0,
        prop_oneof![Just(1.0f64), 0.5f64..=2.0],
        -180.0f64..=180.0,
        -0.5f64..=0.5,
        prop_oneof![Just(1.0f64), 0.5f64..=2.0],
        0u8..8,
    )
        .prop_map(move |(az, alt, len, phi, par, lenx, snap)| {
            let (sa, ca) = az.to_radians().sin_cos();
            let (sl, cl) = alt.to_radians().sin_cos();
            let mut n = [ca * cl, sl, sa * cl];
            if snap < 3 {
                // exactly along a coordinate axis
                n = [0.0; 3];
                n[snap as usize] = if az < 0.0 { -1.0 } else { 1.0 };
            }
            let mut h = [0.0; 3];
            let small = (0..3).min_by(|&i, &j| n[i].abs().partial_cmp(&n[j].abs()).unwrap()).unwrap();
            h[small] = 1.0;
            let u = unit(cross(n, h));
            let w = cross(n, u);
            let (sp, cp) = phi.to_radians().sin_cos();
            let (sp, cp) = if snap < 3 { ((phi / 90.0).round() * 90.0).to_radians().sin_cos() } else { (sp, cp) };
            let mut x = [0.0; 3];
            for i in 0..3 {
                x[i] = cp * u[i] + sp * w[i] + if snap < 3 { 0.0 } else { par * n[i] };
            }
            let x = unit(x);
            let (len, lenx) = if unit_inputs { (1.0, 1.0) } else { (len, lenx) };
            let clean = |v: f64| if v.abs() < 1e-15 { 0.0 } else { v };
            (
                [X(clean(n[0] * len) as f32), X(clean(n[1] * len) as f32), X(clean(n[2] * len) as f32)],
                [X(clean(x[0] * lenx) as f32), X(clean(x[1] * lenx) as f32), X(clean(x[2] * lenx) as f32)],
            )
        })
}

fn fac_t() -> BoxedStrategy<Fac> {
    [tcomp(), tcomp(), tcomp()].prop_map(|t| Fac::T(xs(t))).boxed()
}
fn fac_s() -> BoxedStrategy<Fac> {
    [scomp(), scomp(), scomp()].prop_map(|s| Fac::S(xs(s))).boxed()
}
/// scale with a wide ratio between the axes: exponents (e, -e, f), cond = 10^(2e) up to ~800, det = 10^f
fn fac_s_wide() -> BoxedStrategy<Fac> {
    (0.5f32..=1.45, -0.5f32..=0.5, 0u8..6, 0u8..8)
        .prop_map(|(e, f, perm, signs)| {
            let mag = [10f32.powf(e), 10f32.powf(-e), 10f32.powf(f)];
            let p = PERMS[perm as usize];
            let mut s = [0.0f32; 3];
            for n in 0..3 {
                s[n] = mag[p[n]] * if signs >> n & 1 == 1 { -1.0 } else { 1.0 };
            }
            Fac::S(xs(s))
        })
        .boxed()
}
fn fac_r() -> BoxedStrategy<Fac> {
    (0u8..3, angle_deg()).prop_map(|(axis, d)| Fac::R { axis, deg: X(d) }).boxed()
}
fn fac_sh() -> BoxedStrategy<Fac> {
    (0u8..3, 1u8..3, prop_oneof![2 => Just(1.0f32), 2 => Just(-1.0f32), 6 => -2.0f32..=2.0, 1 => signed(log_uniform(0.3, 1.45))])
        .prop_map(|(r, dc, k)| Fac::Sh { r, c: (r + dc) % 3, k: X(k) })
        .boxed()
}
fn fac_p() -> BoxedStrategy<Fac> {
    (0u8..6, 0u8..8).prop_map(|(perm, signs)| Fac::P { perm, signs }).boxed()
}
fn fac_o(unit_inputs: bool) -> BoxedStrategy<Fac> {
    (orient_inputs(unit_inputs), any::<bool>()).prop_map(|((n, x), z)| if z { Fac::Oz { z: n, x } } else { Fac::Oy { y: n, x } }).boxed()
}

fn fac() -> BoxedStrategy<Fac> {
    prop_oneof![
        3 => fac_t(),
        3 => fac_s(),
        1 => fac_s_wide(),
        5 => fac_r(),
        2 => fac_sh(),
        2 => basis(),
        2 => fac_p(),
        2 => fac_o(false),
    ]
    .boxed()
}

/// proper rotations only
fn fac_rot() -> BoxedStrategy<Fac> {
    prop_oneof![
        6 => fac_r(),
        2 => (0u8..6, 0u8..4).prop_map(|(perm, s2)| {
            // choose the third sign so that the determinant is +1
            let odd = perm >= 3;
            let neg = (s2 & 1) + (s2 >> 1 & 1);
            let third = (neg % 2 == 1) != odd;
            Fac::P { perm, signs: s2 | if third { 4 } else { 0 } }
        }),
        2 => fac_o(true),
    ]
    .boxed()
}

// ------------------------------------------------------------------ shared product machinery

struct Built {
    /// factor matrices from the code under test
    r: Vec<R4>,
    /// the same, promoted exactly to f64
    p: Vec<M4>,
}

fn build(f: &[Fac]) -> Result<Built, Fail> {
    let mut r = vec![];
    for fac in f {
        ensure!(fac.well_formed(), "bad-case", "malformed factor {:?}", fac);
        match catch(|| fac.real()) {
            Ok(m) => r.push(m),
            Err(p) => fail!("constructor-panic", "{:?} panicked: {p}", fac),
        }
    }
    let p = r.iter().map(|m| promote(&m.0)).collect();
    Ok(Built { r, p })
}

/// f0.then(f1).then(f2)… : f0 is applied first
fn chain(r: &[R4]) -> R4 {
    let mut m = r[0].clone();
    for n in &r[1..] {
        m = m.then(n);
    }
    m
}

/// reference product F_k … F_1 F_0 and its componentwise bound |F_k| … |F_0|
fn ref_product(p: &[M4]) -> (M4, M4) {
    let mut m = p[0];
    let mut s = absm(&p[0]);
    for n in &p[1..] {
        m = mul(n, &m);
        s = mul(&absm(n), &s);
    }
    (m, s)
}

fn classes_of(f: &[Fac], obs: &mut Obs) {
    for x in f {
        obs.class(x.kind());
        if let Fac::R { deg, .. } = x {
            let q = deg.0 / 90.0;
            if q == q.round() {
                obs.class("angle:exact multiple of 90 deg");
            } else if (q - q.round()).abs() < 0.01 {
                obs.class("angle:within 1 deg of a multiple of 90");
            } else {
                obs.class("angle:general");
            }
        }
        if let Fac::S(s) = x {
            if s.iter().any(|c| c.0 < 0.0) {
                obs.class("scale:has negative component");
            }
        }
    }
    obs.class(match f.len() {
        1 => "factors:1",
        2 => "factors:2",
        3 => "factors:3",
        4 => "factors:4",
        _ => "factors:5+",
    });
}

fn non_identity(f: &[Fac]) -> usize {
    f.iter().filter(|x| !x.is_identity()).count()
}

// ------------------------------------------------------------------ constructors

#[derive(Clone, Debug, Serialize, Deserialize, Hash)]
pub struct ConCase {
    pub f: Fac,
    pub p: [X; 3],
}

fn con_case() -> BoxedStrategy<ConCase> {
    (fac(), probe3()).prop_map(|(f, p)| ConCase { f, p }).boxed()
}

pub fn check_constructor(c: &ConCase, obs: &mut Obs) -> Check {
    ensure!(c.f.well_formed(), "bad-case", "malformed factor {:?}", c.f);
    let m = match catch(|| c.f.real()) {
        Ok(m) => m,
        Err(p) => fail!("constructor-panic", "{:?} panicked: {p}", c.f),
    };
    let ideal = c.f.ideal();
    let sc = absm(&ideal);
    // orient_* go through two cross products and a normalisation
    let k = if matches!(c.f, Fac::Oy { .. } | Fac::Oz { .. }) { K_ALG } else { K_ONE };
    let p = f3(&c.p);
    let probes: [[f32; 3]; 5] = [p, [0.0; 3], [1.0, 0.0, 0.0], [0.0, 1.0, 0.0], [0.0, 0.0, 1.0]];
    for q in probes {
        let qd = [q[0] as f64, q[1] as f64, q[2] as f64];
        let want = mulv(&ideal, &h4(qd));
        let mut scale = mulv(&sc, &h4(qd.map(f64::abs)));
        if matches!(c.f, Fac::Oy { .. } | Fac::Oz { .. }) {
            // cross products and a normalisation: errors are relative to the vector lengths, not per component
            let top = scale.iter().cloned().fold(0.0, f64::max);
            scale = [top; 4];
        }
        // points: the defining effect
        let got = m.apply_pt(&pt3(q[0], q[1], q[2])).0.map(|x| x as f64);
        let (r, i) = worst_v(&got, &want, &scale, k, 3);
        obs.max("constructor: apply_pt error/tolerance", r);
        ensure!(
            r <= 1.0,
            "constructor-action-point",
            "{:?}: apply_pt({:?}) = {:?}, defining action gives {:?} (component {i}, tolerance {:.2e})",
            c.f,
            q,
            got,
            &want[..3],
            k * scale[i]
        );
        // vectors: the documented matrix form M (v, 1) — for the linear maps this is the linear part
        let got = m.apply(&vec3(q[0], q[1], q[2])).0.map(|x| x as f64);
        let (r, i) = worst_v(&got, &want, &scale, k, 3);
        obs.max("constructor: apply error/tolerance", r);
        ensure!(
            r <= 1.0,
            "constructor-action-vector",
            "{:?}: apply({:?}) = {:?}, documented M(v,1) gives {:?} (component {i}, tolerance {:.2e})",
            c.f,
            q,
            got,
            &want[..3],
            k * scale[i]
        );
    }
    if c.f.is_linear() {
        let z = m.apply(&vec3(0.0, 0.0, 0.0)).0;
        ensure!(z.iter().all(|x| *x == 0.0), "linear-map-moves-origin", "{:?} is linear but apply(0) = {:?}", c.f, z);
    }
    match &c.f {
        // the new axis is reproduced as given
        Fac::Oy { y, .. } => {
            let got = m.apply(&vec3(0.0, 1.0, 0.0)).0;
            ensure!(got == f3(y), "orient-axis", "orient_y(new_y = {:?}, ..) maps y to {:?}", y, got);
        }
        Fac::Oz { z, .. } => {
            let got = m.apply(&vec3(0.0, 0.0, 1.0)).0;
            ensure!(got == f3(z), "orient-axis", "orient_z(new_z = {:?}, ..) maps z to {:?}", z, got);
        }
        _ => {}
    }
    classes_of(std::slice::from_ref(&c.f), obs);
    if !c.f.is_identity() && p.iter().any(|x| *x != 0.0) {
        obs.nontrivial(hash_of(c));
        if obs.wants_sample() {
            let cc = c.clone();
            obs.sample(|| json!(cc));
        }
    }
    Ok(())
}

// ------------------------------------------------------------------ compose / apply

#[derive(Clone, Debug, Serialize, Deserialize, Hash)]
pub struct ProdCase {
    /// factors, first applied first
    pub f: Vec<Fac>,
    pub v: [X; 3],
    /// factors dropped by the generator to stay inside the cond/det domain (inverse only; informational)
    #[serde(default)]
    pub cut: u8,
}

fn prod_case(min: usize) -> BoxedStrategy<ProdCase> {
    (proptest::collection::vec(fac(), min..=5), probe3()).prop_map(|(f, v)| ProdCase { f, v, cut: 0 }).boxed()
}

pub fn check_compose(c: &ProdCase, obs: &mut Obs) -> Check {
    ensure!(!c.f.is_empty(), "bad-case", "empty product");
    let b = build(&c.f)?;
    let n = b.r.len();
    // then() is compose() with the operands swapped, bit for bit
    let mut m = b.r[0].clone();
    for (i, nx) in b.r.iter().enumerate().skip(1) {
        let t = m.then(nx);
        let cmp = nx.compose(&m);
        ensure!(bits_eq(&t.0, &cmp.0), "then-vs-compose", "a.then(&b) differs from b.compose(&a) at factor {i}: {:?} vs {:?}", t.0, cmp.0);
        m = t;
    }
    // the other association: ((F_k ∘ F_k-1) ∘ …) ∘ F_0
    let mut m2 = b.r[n - 1].clone();
    for nx in b.r[..n - 1].iter().rev() {
        m2 = m2.compose(nx);
    }
    let (want, sc) = ref_product(&b.p);
    for (name, got) in [("then-chain", &m), ("compose-nested", &m2)] {
        let (r, i, j) = worst_m(&promote(&got.0), &want, &sc, K_ALG);
        obs.max("compose: element error/tolerance", r);
        ensure!(
            r <= 1.0,
            "compose-vs-f64-product",
            "{name}: element [{i}][{j}] = {} but the f64 product of the factor matrices gives {:.9} (tolerance {:.2e})",
            got.0[i][j],
            want[i][j],
            K_ALG * sc[i][j]
        );
    }
    // applying the composite equals applying the parts in order
    let v = f3(&c.v);
    let vd = d3(&c.v);
    let want_v = mulv(&want, &h4(vd));
    let sc_v = mulv(&sc, &h4(vd.map(f64::abs)));
    let mut w = vec3(v[0], v[1], v[2]);
    let mut wp = pt3(v[0], v[1], v[2]);
    for f in &b.r {
        w = f.apply(&w);
        wp = f.apply_pt(&wp);
    }
    let whole = m.apply(&vec3(v[0], v[1], v[2])).0.map(|x| x as f64);
    let whole_p = m.apply_pt(&pt3(v[0], v[1], v[2])).0.map(|x| x as f64);
    let parts = w.0.map(|x| x as f64);
    let parts_p = wp.0.map(|x| x as f64);
    for (name, got) in [("composite.apply", &whole), ("composite.apply_pt", &whole_p), ("parts in order (apply)", &parts), ("parts in order (apply_pt)", &parts_p)] {
        let (r, i) = worst_v(got, &want_v, &sc_v, K_ALG, 3);
        obs.max("compose: applied-vector error/tolerance", r);
        ensure!(
            r <= 1.0,
            "composite-apply",
            "{name} of {:?} = {:?} but the f64 product applied to (v,1) gives {:?} (component {i}, tolerance {:.2e})",
            v,
            got,
            &want_v[..3],
            K_ALG * sc_v[i]
        );
    }
    {
        let mut d = [0.0; 4];
        for i in 0..3 {
            d[i] = whole[i] - parts[i];
        }
        let (r, i) = worst_v(&d, &[0.0; 4], &sc_v, 2.0 * K_ALG, 3);
        ensure!(r <= 1.0, "composite-vs-parts", "composite.apply(v) = {:?} but parts in order give {:?} (component {i})", whole, parts);
    }
    // the documented matrix form of the composite itself: rows of M times (v, 1)
    let mp = promote(&m.0);
    let form = mulv(&mp, &h4(vd));
    let form_sc = mulv(&absm(&mp), &h4(vd.map(f64::abs)));
    for (name, got) in [("apply", &whole), ("apply_pt", &whole_p)] {
        let (r, i) = worst_v(got, &form, &form_sc, K_ONE, 3);
        obs.max("compose: M(v,1) form error/tolerance", r);
        ensure!(r <= 1.0, "matrix-form", "{name}({:?}) = {:?} but M(v,1) = {:?} (component {i}, M = {:?})", v, got, &form[..3], m.0);
    }
    classes_of(&c.f, obs);
    if non_identity(&c.f) >= 2 {
        obs.nontrivial(hash_of(c));
        if obs.wants_sample() {
            let cc = c.clone();
            obs.sample(|| json!(cc));
        }
    }
    Ok(())
}

// ------------------------------------------------------------------ inverse

/// DESIGN D-f: cond_2 of the linear part <= 1e3 and |det| in [1e-3, 1e3].
fn in_domain(m: &M4) -> bool {
    if !m.iter().flatten().all(|x| x.is_finite()) {
        return false;
    }
    let det = eliminate(m).det.abs();
    det >= 1e-3 && det <= 1e3 && cond_linear(m) <= 1e3
}

/// Longest prefix of the factor list whose product (as built by the code under test) is in the domain.
fn admissible_prefix(f: &[Fac]) -> usize {
    let Ok(b) = build(f) else { return 0 };
    let mut best = 0;
    for k in 1..=f.len() {
        let m = chain(&b.r[..k]);
        if in_domain(&promote(&m.0)) {
            best = k;
        }
    }
    best
}

fn inv_case() -> BoxedStrategy<ProdCase> {
    // 45 %: the outermost factor is a signed axis permutation or a quarter turn, which permutes the rows
    // of the product (zero / non-maximal pivots on the diagonal by construction)
    let outer = prop_oneof![
        11 => Just(None),
        6 => (1u8..6, 0u8..8).prop_map(|(perm, signs)| Some(Fac::P { perm, signs })),
        3 => (0u8..3, prop_oneof![Just(90.0f32), Just(-90.0f32), Just(270.0f32), Just(450.0f32)]).prop_map(|(axis, d)| Some(Fac::R { axis, deg: X(d) })),
    ];
    (proptest::collection::vec(fac(), 1..=4), outer, probe3())
        .prop_map(|(mut f, outer, v)| {
            let k = admissible_prefix(&f);
            let cut = (f.len() - k) as u8;
            if k == 0 {
                // a single factor is always admissible by the parameter ranges; keep a harmless fallback
                f = vec![Fac::S(xs([1.0, 1.0, 1.0]))];
            } else {
                f.truncate(k);
            }
            if let Some(o) = outer {
                f.push(o);
            }
            ProdCase { f, v, cut }
        })
        .boxed()
}

pub fn check_inverse(c: &ProdCase, obs: &mut Obs) -> Check {
    ensure!(!c.f.is_empty(), "bad-case", "empty product");
    let b = build(&c.f)?;
    let m = chain(&b.r);
    let a = promote(&m.0);
    if !in_domain(&a) {
        obs.excluded("product outside cond<=1e3, |det| in [1e-3,1e3] (DESIGN D-f)");
        return Ok(());
    }
    let Some(ai) = inv_ref(&a) else {
        obs.excluded("reference inverse undefined");
        return Ok(());
    };
    let x = match catch(|| m.inverse()) {
        Ok(x) => x,
        Err(p) => fail!("inverse-panic", "inverse() panicked on a matrix with cond {:.1}, det {:.4}: {p}; M = {:?}", cond_linear(&a), eliminate(&a).det, m.0),
    };
    let xp = promote(&x.0);
    ensure!(xp.iter().flatten().all(|e| e.is_finite()), "inverse-not-finite", "inverse() of {:?} has non-finite elements {:?}", m.0, x.0);
    let aa = absm(&a);
    let id: M4 = ident();
    // M ∘ M⁻¹ = I and M⁻¹ ∘ M = I, through the crate's own compose
    let right = promote(&m.compose(&x).0);
    let left = promote(&x.compose(&m).0);
    let e_fwd = inverse_error_shape(&a, &ai); // bound shape of |X - A⁻¹|
    let sc_r = mul(&aa, &e_fwd);
    let sc_l = mul(&e_fwd, &aa);
    for (name, got, sc) in [("m.compose(&m.inverse())", &right, &sc_r), ("m.inverse().compose(&m)", &left, &sc_l)] {
        let (r, i, j) = worst_m(got, &id, sc, K_ALG);
        obs.max("inverse: |M∘M⁻¹ - I| element error/tolerance", r);
        for p in 0..4 {
            for q in 0..4 {
                obs.max("inverse: |M∘M⁻¹ - I| largest absolute element error", (got[p][q] - id[p][q]).abs());
            }
        }
        ensure!(
            r <= 1.0,
            "inverse-not-identity",
            "{name}[{i}][{j}] = {:.7} instead of {} (tolerance {:.2e}); M = {:?}, inverse() = {:?}, f64 inverse = {:?}",
            got[i][j],
            id[i][j],
            K_ALG * sc[i][j],
            m.0,
            x.0,
            ai
        );
    }
    // forward error of the inverse itself: measured, the assertions are the two compositions above
    {
        let (r, _, _) = worst_m(&xp, &ai, &e_fwd, K_ALG);
        obs.max("inverse: element error vs f64 inverse / (1e-5 E) (measured only)", r);
    }
    // round trips on a probe
    let v = f3(&c.v);
    let vd = d3(&c.v);
    let hv = h4(vd.map(f64::abs));
    let back = x.apply(&m.apply(&vec3(v[0], v[1], v[2]))).0.map(|e| e as f64);
    let forth = m.apply(&x.apply(&vec3(v[0], v[1], v[2]))).0.map(|e| e as f64);
    let back_p = x.apply_pt(&m.apply_pt(&pt3(v[0], v[1], v[2]))).0.map(|e| e as f64);
    let want = h4(vd);
    let sc_back = mulv(&sc_l, &hv);
    let sc_forth = mulv(&sc_r, &hv);
    for (name, got, sc) in [("inverse.apply(m.apply(v))", &back, &sc_back), ("m.apply(inverse.apply(v))", &forth, &sc_forth), ("inverse.apply_pt(m.apply_pt(p))", &back_p, &sc_back)] {
        let (r, i) = worst_v(got, &want, sc, K_ALG, 3);
        obs.max("inverse: round-trip error/tolerance", r);
        ensure!(r <= 1.0, "inverse-round-trip", "{name} = {:?} for v = {:?} (component {i}, tolerance {:.2e}); M = {:?}", got, v, K_ALG * sc[i], m.0);
    }
    // classes and the non-trivial rule
    classes_of(&c.f, obs);
    let e = eliminate(&a);
    let cond = cond_linear(&a);
    obs.class(if cond < 10.0 {
        "cond:<10"
    } else if cond < 100.0 {
        "cond:10..100"
    } else {
        "cond:100..1000"
    });
    if c.cut > 0 {
        obs.class("generator cut the product to its admissible prefix");
    }
    if e.exch.iter().any(|x| *x) {
        obs.class("needs row exchange");
        obs.nontrivial(hash_of(c));
        if e.zero_pivot {
            obs.class("needs row exchange: exact zero on the diagonal");
        }
        if e.strong {
            obs.class("needs row exchange: diagonal < half the column maximum");
        }
        for (i, k) in ["row exchange at step 0", "row exchange at step 1", "row exchange at step 2"].iter().enumerate() {
            if e.exch[i] {
                obs.class(k);
            }
        }
        if e.exch.iter().filter(|x| **x).count() >= 2 {
            obs.class("needs >= 2 row exchanges");
        }
        if obs.wants_sample() {
            let cc = c.clone();
            let mm = m.0;
            obs.sample(|| json!({"case": cc, "matrix": mm, "cond": r6(cond), "det": r6(e.det)}));
        }
    } else {
        obs.class("no row exchange");
    }
    Ok(())
}

// ------------------------------------------------------------------ determinant

#[derive(Clone, Debug, Serialize, Deserialize, Hash)]
pub enum MatSpec {
    /// product of factors (affine)
    Prod(Vec<Fac>),
    /// arbitrary 4x4 elements (determinant() and compose() are defined for any element matrix)
    General([[X; 4]; 4]),
}

#[derive(Clone, Debug, Serialize, Deserialize, Hash)]
pub struct DetCase {
    pub a: MatSpec,
    pub b: MatSpec,
}

fn gen_elem() -> BoxedStrategy<f32> {
    prop_oneof![
        2 => Just(0.0f32),
        1 => Just(1.0f32),
        1 => Just(-1.0f32),
        2 => (-4i32..=4).prop_map(|i| i as f32),
        4 => -3.0f32..=3.0,
    ]
    .boxed()
}

fn mat_spec() -> BoxedStrategy<MatSpec> {
    prop_oneof![
        3 => proptest::collection::vec(fac(), 1..=3).prop_map(|mut f| {
            let k = admissible_prefix(&f);
            f.truncate(k.max(1));
            MatSpec::Prod(f)
        }),
        1 => proptest::array::uniform4(proptest::array::uniform4(gen_elem())).prop_map(|e| MatSpec::General(e.map(xs))),
    ]
    .boxed()
}

fn det_case() -> BoxedStrategy<DetCase> {
    (mat_spec(), mat_spec()).prop_map(|(a, b)| DetCase { a, b }).boxed()
}

fn spec_real(s: &MatSpec) -> Result<R4, Fail> {
    match s {
        MatSpec::Prod(f) => {
            ensure!(!f.is_empty(), "bad-case", "empty product");
            Ok(chain(&build(f)?.r))
        }
        MatSpec::General(e) => Ok(Matrix::new(e.map(fs))),
    }
}

pub fn check_det(c: &DetCase, obs: &mut Obs) -> Check {
    let a = spec_real(&c.a)?;
    let b = spec_real(&c.b)?;
    let (ap, bp) = (promote(&a.0), promote(&b.0));
    let mut dets = [0.0f64; 2];
    for (n, (m, mp, spec)) in [(&a, &ap, &c.a), (&b, &bp, &c.b)].into_iter().enumerate() {
        let got = m.determinant() as f64;
        dets[n] = got;
        let want = det_leibniz(mp);
        let sc = permanent_abs(mp);
        let r = (got - want).abs() / (K_ALG * sc + ABS_FLOOR);
        obs.max("determinant: error vs f64 expansion / tolerance", r);
        ensure!(r <= 1.0 && got.is_finite(), "determinant-value", "determinant() = {got} but the f64 Leibniz expansion gives {want:e} (tolerance {:.2e}); M = {:?}", K_ALG * sc, m.0);
        if let MatSpec::Prod(f) = spec {
            if f.len() == 1 {
                match &f[0] {
                    Fac::S(s) => {
                        let s = d3(s);
                        let p = s[0] * s[1] * s[2];
                        ensure!((got - p).abs() <= K_ONE * p.abs(), "determinant-of-scale", "det(scale({:?})) = {got}, product {p}", s);
                        obs.class("det(scale) = product checked");
                    }
                    Fac::T(t) => {
                        ensure!((got - 1.0).abs() <= K_ONE, "determinant-of-translate", "det(translate({:?})) = {got}", t);
                        obs.class("det(translate) = 1 checked");
                    }
                    _ => {}
                }
            }
        }
    }
    // multiplicativity
    let ab = a.compose(&b);
    let lhs = ab.determinant() as f64;
    let rhs = dets[0] * dets[1];
    let sc = permanent_abs(&mul(&absm(&ap), &absm(&bp)));
    let r = (lhs - rhs).abs() / (K_ALG * sc + ABS_FLOOR);
    obs.max("determinant: |det(ab) - det a det b| / tolerance", r);
    ensure!(
        r <= 1.0 && lhs.is_finite(),
        "determinant-not-multiplicative",
        "det(a∘b) = {lhs} but det a * det b = {} * {} = {rhs} (tolerance {:.2e}); a = {:?}, b = {:?}",
        dets[0],
        dets[1],
        K_ALG * sc,
        a.0,
        b.0
    );
    let mut general = false;
    for s in [&c.a, &c.b] {
        match s {
            MatSpec::Prod(f) => classes_of(f, obs),
            MatSpec::General(_) => {
                general = true;
                obs.class("operand:general 4x4 elements");
            }
        }
    }
    if !general {
        obs.class("both operands affine products");
    }
    let nt = |s: &MatSpec| match s {
        MatSpec::Prod(f) => non_identity(f) >= 1,
        MatSpec::General(_) => true,
    };
    if nt(&c.a) && nt(&c.b) && rhs != 0.0 {
        obs.nontrivial(hash_of(c));
        if obs.wants_sample() {
            let cc = c.clone();
            obs.sample(|| json!({"case": cc, "det_a": dets[0], "det_b": dets[1], "det_ab": lhs}));
        }
    }
    if rhs == 0.0 {
        obs.class("det a * det b == 0");
    } else if rhs < 0.0 {
        obs.class("det a * det b < 0");
    } else {
        obs.class("det a * det b > 0");
    }
    Ok(())
}

// ------------------------------------------------------------------ rotations

fn rot_case() -> BoxedStrategy<ProdCase> {
    (proptest::collection::vec(fac_rot(), 1..=4), probe3()).prop_map(|(f, v)| ProdCase { f, v, cut: 0 }).boxed()
}

pub fn check_rotation(c: &ProdCase, obs: &mut Obs) -> Check {
    ensure!(!c.f.is_empty(), "bad-case", "empty product");
    // the case must consist of proper rotations (checked on the f64 definitions, not on the code under test)
    for f in &c.f {
        ensure!(f.well_formed(), "bad-case", "malformed factor {:?}", f);
        let i = f.ideal();
        let ortho = mul(&i, &transpose4(&i));
        let (r, _, _) = worst_m(&ortho, &ident(), &[[1.0; 4]; 4], 1e-6);
        if r > 1.0 || (eliminate(&i).det - 1.0).abs() > 1e-6 {
            obs.excluded("factor is not a proper rotation (non-unit orient inputs or reflecting axis permutation)");
            return Ok(());
        }
    }
    let b = build(&c.f)?;
    let m = chain(&b.r);
    let nf = c.f.len() as f64;
    let k = K_ALG * nf.max(1.0) / 2.0;
    // lengths
    let v = f3(&c.v);
    let len = norm(d3(&c.v));
    let got = norm(m.apply(&vec3(v[0], v[1], v[2])).0.map(|x| x as f64));
    let r = (got - len).abs() / (k * len + ABS_FLOOR);
    obs.max("rotation: | |Rv| - |v| | / tolerance", r);
    ensure!(r <= 1.0, "rotation-changes-length", "|R v| = {got} but |v| = {len} for v = {:?}; R = {:?}", v, m.0);
    // also through the crate's own len()
    let got32 = m.apply(&vec3(v[0], v[1], v[2])).len() as f64;
    ensure!((got32 - len).abs() <= 2.0 * k * len + ABS_FLOOR, "rotation-changes-length", "(R v).len() = {got32} but |v| = {len}");
    // handedness
    let det = m.determinant() as f64;
    obs.max("rotation: |det - 1| / tolerance", (det - 1.0).abs() / k);
    ensure!((det - 1.0).abs() <= k, "rotation-determinant", "det R = {det}; R = {:?}", m.0);
    // transpose equals inverse
    let t = m.clone().transpose();
    let x = match catch(|| m.inverse()) {
        Ok(x) => x,
        Err(p) => fail!("inverse-panic", "inverse() of a rotation panicked: {p}; R = {:?}", m.0),
    };
    let (r, i, j) = worst_m(&promote(&t.0), &promote(&x.0), &[[1.0; 4]; 4], k);
    obs.max("rotation: |transpose - inverse| element / tolerance", r);
    ensure!(r <= 1.0, "rotation-transpose-vs-inverse", "transpose()[{i}][{j}] = {} but inverse()[{i}][{j}] = {}; R = {:?}", t.0[i][j], x.0[i][j], m.0);
    // the transpose undoes the rotation
    let tr = promote(&t.compose(&m).0);
    let (r, i, j) = worst_m(&tr, &ident(), &[[1.0; 4]; 4], k);
    obs.max("rotation: |RᵀR - I| element / tolerance", r);
    ensure!(r <= 1.0, "rotation-transpose-not-inverse", "(Rᵀ∘R)[{i}][{j}] = {}; R = {:?}", tr[i][j], m.0);
    classes_of(&c.f, obs);
    if e_needs_exchange(&promote(&m.0)) {
        obs.class("needs row exchange");
    }
    if non_identity(&c.f) >= 1 && len > 0.0 {
        obs.nontrivial(hash_of(c));
        if obs.wants_sample() {
            let cc = c.clone();
            obs.sample(|| json!(cc));
        }
    }
    Ok(())
}

fn transpose4(m: &M4) -> M4 {
    let mut t = [[0.0; 4]; 4];
    for i in 0..4 {
        for j in 0..4 {
            t[i][j] = m[j][i];
        }
    }
    t
}

fn e_needs_exchange(m: &M4) -> bool {
    eliminate(m).exch.iter().any(|x| *x)
}

// ------------------------------------------------------------------ 3x3 (2D)

#[derive(Clone, Debug, Serialize, Deserialize, Hash)]
pub enum F2 {
    T([X; 2]),
    S([X; 2]),
    /// rotation by `deg` degrees, in the same sense as rotate_z (+y towards +x)
    R(X),
    Sh { r: u8, k: X },
    /// general affine: two rows of three elements
    G([[X; 3]; 2]),
}

#[derive(Clone, Debug, Serialize, Deserialize, Hash)]
pub struct Case2 {
    pub f: Vec<F2>,
    pub v: [X; 2],
}

impl F2 {
    fn elems(&self) -> [[f32; 3]; 3] {
        match self {
            F2::T(t) => [[1.0, 0.0, t[0].0], [0.0, 1.0, t[1].0], [0.0, 0.0, 1.0]],
            F2::S(s) => [[s[0].0, 0.0, 0.0], [0.0, s[1].0, 0.0], [0.0, 0.0, 1.0]],
            F2::R(d) => {
                let (s, c) = (d.0 as f64).to_radians().sin_cos();
                let (s, c) = (s as f32, c as f32);
                [[c, s, 0.0], [-s, c, 0.0], [0.0, 0.0, 1.0]]
            }
            F2::Sh { r, k } => {
                let mut e = [[1.0, 0.0, 0.0], [0.0, 1.0, 0.0], [0.0, 0.0, 1.0]];
                let r = (*r & 1) as usize;
                e[r][1 - r] = k.0;
                e
            }
            F2::G(g) => [fs(g[0]), fs(g[1]), [0.0, 0.0, 1.0]],
        }
    }
    fn kind(&self) -> &'static str {
        match self {
            F2::T(_) => "2d:translate",
            F2::S(_) => "2d:scale",
            F2::R(_) => "2d:rotate",
            F2::Sh { .. } => "2d:shear",
            F2::G(_) => "2d:general affine",
        }
    }
}

fn f2() -> BoxedStrategy<F2> {
    prop_oneof![
        2 => [tcomp(), tcomp()].prop_map(|t| F2::T(xs(t))),
        2 => [scomp(), scomp()].prop_map(|s| F2::S(xs(s))),
        3 => angle_deg().prop_map(|d| F2::R(X(d))),
        1 => (0u8..2, -2.0f32..=2.0).prop_map(|(r, k)| F2::Sh { r, k: X(k) }),
        2 => [[gen_elem(), gen_elem(), tcomp()], [gen_elem(), gen_elem(), tcomp()]].prop_map(|g| F2::G(g.map(xs))),
    ]
    .boxed()
}

fn case2() -> BoxedStrategy<Case2> {
    (proptest::collection::vec(f2(), 1..=4), [probe_comp(), probe_comp()]).prop_map(|(f, v)| Case2 { f, v: xs(v) }).boxed()
}

pub fn check_mat3(c: &Case2, obs: &mut Obs) -> Check {
    ensure!(!c.f.is_empty(), "bad-case", "empty product");
    let r: Vec<R3> = c.f.iter().map(|f| Matrix::new(f.elems())).collect();
    let p: Vec<M3> = r.iter().map(|m| promote(&m.0)).collect();
    let n = r.len();
    let mut m = r[0].clone();
    for (i, nx) in r.iter().enumerate().skip(1) {
        let t = m.then(nx);
        let cmp = nx.compose(&m);
        ensure!(bits_eq(&t.0, &cmp.0), "then-vs-compose", "3x3: a.then(&b) differs from b.compose(&a) at factor {i}: {:?} vs {:?}", t.0, cmp.0);
        m = t;
    }
    let mut m2 = r[n - 1].clone();
    for nx in r[..n - 1].iter().rev() {
        m2 = m2.compose(nx);
    }
    let mut want = p[0];
    let mut sc = absm(&p[0]);
    for nx in &p[1..] {
        want = mul(nx, &want);
        sc = mul(&absm(nx), &sc);
    }
    for (name, got) in [("then-chain", &m), ("compose-nested", &m2)] {
        let (rr, i, j) = worst_m(&promote(&got.0), &want, &sc, K_ALG);
        obs.max("3x3 compose: element error/tolerance", rr);
        ensure!(
            rr <= 1.0,
            "compose-vs-f64-product",
            "3x3 {name}: element [{i}][{j}] = {} but the f64 product gives {:.9} (tolerance {:.2e})",
            got.0[i][j],
            want[i][j],
            K_ALG * sc[i][j]
        );
    }
    let v = [c.v[0].0, c.v[1].0];
    let vd = [v[0] as f64, v[1] as f64];
    let want_v = mulv(&want, &h3(vd));
    let sc_v = mulv(&sc, &h3(vd.map(f64::abs)));
    let mut w = vec2(v[0], v[1]);
    let mut wp = pt2(v[0], v[1]);
    for f in &r {
        w = f.apply(&w);
        wp = f.apply_pt(&wp);
    }
    let whole = m.apply(&vec2(v[0], v[1])).0.map(|x| x as f64);
    let whole_p = m.apply_pt(&pt2(v[0], v[1])).0.map(|x| x as f64);
    let parts = w.0.map(|x| x as f64);
    let parts_p = wp.0.map(|x| x as f64);
    for (name, got) in [("composite.apply", &whole), ("composite.apply_pt", &whole_p), ("parts in order (apply)", &parts), ("parts in order (apply_pt)", &parts_p)] {
        let (rr, i) = worst_v(got, &want_v, &sc_v, K_ALG, 2);
        obs.max("3x3 compose: applied-vector error/tolerance", rr);
        ensure!(
            rr <= 1.0,
            "composite-apply",
            "3x3 {name} of {:?} = {:?} but the f64 product applied to (v,1) gives {:?} (component {i}, tolerance {:.2e})",
            v,
            got,
            &want_v[..2],
            K_ALG * sc_v[i]
        );
    }
    let mp = promote(&m.0);
    let form = mulv(&mp, &h3(vd));
    let form_sc = mulv(&absm(&mp), &h3(vd.map(f64::abs)));
    for (name, got) in [("apply", &whole), ("apply_pt", &whole_p)] {
        let (rr, i) = worst_v(got, &form, &form_sc, K_ONE, 2);
        obs.max("3x3: M(v,1) form error/tolerance", rr);
        ensure!(rr <= 1.0, "matrix-form", "3x3 {name}({:?}) = {:?} but M(v,1) = {:?} (component {i}, M = {:?})", v, got, &form[..2], m.0);
    }
    // 2D rotations: lengths and transpose
    if c.f.iter().all(|f| matches!(f, F2::R(_))) {
        let k = K_ALG * n as f64 / 2.0;
        let len = (vd[0] * vd[0] + vd[1] * vd[1]).sqrt();
        let got = (whole[0] * whole[0] + whole[1] * whole[1]).sqrt();
        ensure!((got - len).abs() <= k * len + ABS_FLOOR, "rotation-changes-length", "2D: |R v| = {got} but |v| = {len}; R = {:?}", m.0);
        let tr = promote(&m.clone().transpose().compose(&m).0);
        let (rr, i, j) = worst_m(&tr, &ident(), &[[1.0; 3]; 3], k);
        obs.max("3x3 rotation: |RᵀR - I| element / tolerance", rr);
        ensure!(rr <= 1.0, "rotation-transpose-not-inverse", "2D (Rᵀ∘R)[{i}][{j}] = {}; R = {:?}", tr[i][j], m.0);
        obs.class("2d:pure rotation product");
    }
    for f in &c.f {
        obs.class(f.kind());
    }
    obs.class(match n {
        1 => "factors:1",
        2 => "factors:2",
        3 => "factors:3",
        _ => "factors:4",
    });
    let id3 = [[1.0f32, 0.0, 0.0], [0.0, 1.0, 0.0], [0.0, 0.0, 1.0]];
    if c.f.iter().filter(|f| f.elems() != id3).count() >= 2 {
        obs.nontrivial(hash_of(c));
        if obs.wants_sample() {
            let cc = c.clone();
            obs.sample(|| json!(cc));
        }
    }
    Ok(())
}

// ------------------------------------------------------------------ driver

pub fn run(cx: &mut Ctx) {
    cx.assume("apply and apply_pt both multiply with an implicit homogeneous 1 in this version (doc comments of Mat3x3/Mat4x4::apply and the crate's `translation` tests); 'linear part on vectors' is asserted for the maps that are linear (scale, rotations, shears, basis changes), where it coincides with M(v,1)");
    cx.assume("rotation senses are those of the crate's unit tests: rotate_x(90 deg) takes +z to +y, rotate_y(90 deg) +x to +z, rotate_z(90 deg) +y to +x; orient_y(new_y, x) maps z to unit(x × new_y), orient_z(new_z, x) maps y to unit(new_z × x) (tests orientation_y_to_z / orientation_z_to_y)");
    cx.assume("inverse() documents a debug-mode panic for |det| <= f32::EPSILON: inverse/determinant products are cut to the longest prefix with cond_2(linear 3x3 part) <= 1e3 and |det| in [1e-3, 1e3] (DESIGN D-f; the separate inverse-large-scale sub-check covers well-conditioned maps whose determinant is huge or overflows — only a SMALL determinant is a documented reason to panic); translations are unrestricted (+-100 per factor) because every tolerance is componentwise");
    cx.assume("tolerances: 4e-6 * (|F_k|…|F_0|)_ij for products, 4e-6 * (|A||A⁻¹||A||A⁻¹|)_ij for M∘M⁻¹ (first-order bound of Gauss-Jordan with partial pivoting in f32; at most 4e-6*cond^2-like), 4e-6 * permanent(|A|) for determinants, 1e-6 * |M||(v,1)| for a single matrix-vector product; angles enter the oracle as degs(d).to_rads() (unit conversion is C18's subject)");
    cx.assume("orient_y/orient_z inputs: the x hint is at least ~63 degrees away from the new axis (the documented construction normalises x × new_axis, which loses all accuracy when they are parallel); rotations sub-check uses unit inputs ('if new_y and x are unit vectors, the result is orthonormal')");

    let n = cx.n(200_000, 3_000_000);
    cx.prop_check("constructors", n, con_case, |c, obs| check_constructor(c, obs));
    let n = cx.n(300_000, 5_000_000);
    cx.prop_check("compose-apply", n, || prod_case(2), |c, obs| check_compose(c, obs));
    let n = cx.n(300_000, 5_000_000);
    cx.prop_check("inverse", n, inv_case, |c, obs| check_inverse(c, obs));
    // non-vacuity: at least 30 % of the inverted matrices must need a row exchange
    if let Some(s) = cx.subs.iter().find(|s| s.name == "inverse") {
        let ex = s.obs.classes.get("needs row exchange").copied().unwrap_or(0);
        let no = s.obs.classes.get("no row exchange").copied().unwrap_or(0);
        let zero = s.obs.classes.get("needs row exchange: exact zero on the diagonal").copied().unwrap_or(0);
        let frac = ex as f64 / (ex + no).max(1) as f64;
        cx.extra.insert(
            "inverse_row_exchange".into(),
            json!({"needs_exchange": ex, "no_exchange": no, "fraction": r6(frac), "exact_zero_pivot": zero}),
        );
        if cx.violations.is_empty() && frac < 0.30 {
            eprintln!("HARNESS-ERROR C09/inverse: only {:.1} % of the matrices need a row exchange (>= 30 % required)", 100.0 * frac);
            std::process::exit(2);
        }
        let excl: u64 = s.obs.excluded_domain.values().sum();
        if excl * 5 > s.obs.evals {
            eprintln!("HARNESS-ERROR C09/inverse: {excl} of {} cases fell outside the domain", s.obs.evals);
            std::process::exit(2);
        }
    }
    let n = cx.n(200_000, 3_000_000);
    cx.prop_check("determinant", n, det_case, |c, obs| check_det(c, obs));
    let n = cx.n(150_000, 2_000_000);
    cx.prop_check("rotations", n, rot_case, |c, obs| check_rotation(c, obs));
    let n = cx.n(150_000, 2_000_000);
    cx.prop_check("mat3", n, case2, |c, obs| check_mat3(c, obs));
    let n = cx.n(100_000, 2_000_000);
    cx.prop_check("inverse-large-scale", n, big_case, |c, obs| check_big(c, obs));
}

// ------------------------------------------------------------------ inverse at large magnitudes

/// A rigid rotation times a (nearly) uniform scaling of large magnitude, plus a translation: perfectly conditioned, but the
/// determinant (cubic in the scale) overflows f32 long before any matrix element does.
#[derive(Clone, Debug, Serialize, Deserialize)]
pub struct BigCase {
    /// rotation angles about x, y, z in degrees
    pub rot: [X; 3],
    /// scale factors (same order of magnitude)
    pub scale: [X; 3],
    pub trans: [X; 3],
    pub probe: [X; 3],
}

pub fn big_case() -> BoxedStrategy<BigCase> {
    let ang = || prop_oneof![1 => Just(0.0f32), 1 => Just(90.0f32), 4 => -180.0f32..180.0];
    let mag = prop_oneof![2 => Just(1e13f32), 1 => Just(7.5e12f32), 6 => log_uniform(3.0, 15.0)];
    (mag, [ang(), ang(), ang()], [0.5f32..2.0, 0.5f32..2.0, 0.5f32..2.0], [any::<bool>(), any::<bool>(), any::<bool>()], [-10.0f32..10.0, -10.0f32..10.0, -10.0f32..10.0], [-1.0f32..1.0, -1.0f32..1.0, -1.0f32..1.0])
        .prop_map(|(m, rot, f, neg, trans, probe)| BigCase {
            rot: xs(rot),
            scale: xs([0, 1, 2].map(|i| m * f[i] * if neg[i] { -1.0 } else { 1.0 })),
            trans: xs(trans),
            probe: xs(probe),
        })
        .boxed()
}

pub fn check_big(c: &BigCase, obs: &mut Obs) -> Check {
    let r = fs(c.rot);
    let sc = fs(c.scale);
    let t = fs(c.trans);
    let m: Mat4x4<RealToReal<3>> = rotate_x(degs(r[0])).then(&rotate_y(degs(r[1]))).then(&rotate_z(degs(r[2]))).then(&scale(vec3(sc[0], sc[1], sc[2]))).then(&translate(vec3(t[0], t[1], t[2])));
    let det = sc.iter().map(|v| *v as f64).product::<f64>();
    obs.class(if det.abs() > 3.4e38 { "determinant overflows f32" } else { "determinant representable" });
    let inv = match catch(|| m.inverse()) {
        Ok(i) => i,
        Err(p) => fail!("inverse-panic", "inverse() of a rotation x scaling {sc:?} x translation (perfectly conditioned, every element finite) panicked: {p}"),
    };
    ensure!(inv.0.iter().flatten().all(|e| e.is_finite()), "inverse-not-finite", "inverse of rotation x scaling {sc:?} has non-finite elements");
    // both orders give the identity (the translation column carries |t| * eps of cancellation noise)
    let tol = 1e-4;
    for (name, p) in [("m∘m⁻¹", m.compose(&inv)), ("m⁻¹∘m", inv.compose(&m))] {
        for i in 0..4 {
            for j in 0..4 {
                let want = if i == j { 1.0 } else { 0.0 };
                let scale_ij = if j == 3 && i < 3 && name == "m∘m⁻¹" { 1.0 + t[i].abs() } else { 1.0 };
                let e = (p.0[i][j] - want).abs() as f64;
                obs.max("large-scale inverse: |M M^-1 - I| (bound 1e-4)", e / scale_ij as f64);
                ensure!(e <= tol * scale_ij as f64, "inverse-not-identity", "{name}[{i}][{j}] = {} for rotation {r:?} x scaling {sc:?} x translation {t:?}", p.0[i][j]);
            }
        }
    }
    // and the round trip of a probe point
    let v = vec3(c.probe[0].0, c.probe[1].0, c.probe[2].0);
    let back = inv.apply(&m.apply(&v));
    for k in 0..3 {
        ensure!((back.0[k] - v.0[k]).abs() <= 1e-3, "inverse-round-trip", "inverse(m).apply(m.apply({:?})) = {:?}", v.0, back.0);
    }
    obs.nontrivial(hash_of(&(c.rot, c.scale, c.trans)));
    if obs.wants_sample() {
        let cc = c.clone();
        obs.sample(|| json!(cc));
    }
    Ok(())
}

pub fn replay(sub: &str, case: &Value) -> Check {
    let mut obs = Obs::new();
    obs.freeze();
    fn de<T: serde::de::DeserializeOwned>(v: &Value) -> Result<T, Fail> {
        serde_json::from_value(v.clone()).map_err(|e| Fail::new("bad-replay", e.to_string()))
    }
    match sub {
        "constructors" => check_constructor(&de(case)?, &mut obs),
        "compose-apply" => check_compose(&de(case)?, &mut obs),
        "inverse" => check_inverse(&de(case)?, &mut obs),
        "determinant" => check_det(&de(case)?, &mut obs),
        "rotations" => check_rotation(&de(case)?, &mut obs),
        "mat3" => check_mat3(&de(case)?, &mut obs),
        "inverse-large-scale" => check_big(&de(case)?, &mut obs),
        _ => Err(Fail::new("bad-replay", format!("unknown subcheck {sub}"))),
    }
}
