//! libFuzzer target for C13: decoding arbitrary bytes with retrofire's PNM
//! decoder never panics, and an Ok result is well-formed (pixel count ==
//! w*h, dims equal to the header's when the harness's strict header parser
//! accepts the header). The oracle lives in rfverif::c13::fuzz_one; it aborts
//! on a violation whose signature is not an open known finding.
#![no_main]

use libfuzzer_sys::fuzz_target;

fuzz_target!(|data: &[u8]| {
    rfverif::c13::fuzz_one(data);
});
