//! libFuzzer target for property C14 (OBJ parsing is total): every input goes
//! through the same semantic oracle as the harness sub-check `mutations`
//! (no panic; Ok implies in-range face indices and a successful build();
//! parse_obj and read_obj agree). `fuzz_one` panics on a violation.
#![no_main]

use libfuzzer_sys::fuzz_target;

fuzz_target!(|data: &[u8]| {
    rfverif::c14::fuzz_one(data);
});
